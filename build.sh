#!/bin/sh
# Builds the gosym engine / check driver from /verif/engine (offline, module cache only).
set -e
export PATH=/opt/veriftools/go1.26.8/bin:$PATH GOFLAGS=-mod=mod GOPROXY=off GOSUMDB=off GOTOOLCHAIN=local
cd /verif/engine
mkdir -p /verif/bin /verif/evidence /verif/replays
go build -o /verif/bin/check .
