package main

// SymRef is the address of elems[idx] for a symbolic idx over scalar elements:
// loads read an ite chain, stores update every element under a guard. It is
// only ever the operand of a load or a store (IndexAddr results that flow
// anywhere else are concretised instead).

import "golang.org/x/tools/go/ssa"

type SymRef struct {
	elems []Value
	idx   *Term
}

func (r *SymRef) load() Value {
	res := r.elems[len(r.elems)-1].(*Term)
	for i := len(r.elems) - 2; i >= 0; i-- {
		res = Ite(Eq(r.idx, ConstT(r.idx.W, uint64(i))), r.elems[i].(*Term), res)
	}
	return res
}

func (r *SymRef) store(v *Term) {
	for i := range r.elems {
		r.elems[i] = Ite(Eq(r.idx, ConstT(r.idx.W, uint64(i))), v, r.elems[i].(*Term))
	}
}

// symRef returns a SymRef when the index is symbolic, all elements are scalars,
// the array is small enough and the IndexAddr result is used only by loads and
// stores; nil otherwise.
func (p *Path) symRef(fr *frame, elems []Value, iv Value) Value {
	t := iv.(*Term)
	if t.IsConst() || len(elems) == 0 || len(elems) > 512 {
		return nil
	}
	instr, ok := fr.curInstr.(*ssa.IndexAddr)
	if !ok {
		return nil
	}
	for _, ref := range *instr.Referrers() {
		switch u := ref.(type) {
		case *ssa.UnOp:
			if u.X != ssa.Value(instr) {
				return nil
			}
		case *ssa.Store:
			if u.Addr != ssa.Value(instr) {
				return nil
			}
		case *ssa.DebugRef:
		default:
			return nil
		}
	}
	for _, e := range elems {
		if _, ok := e.(*Term); !ok {
			return nil
		}
	}
	inb := Cmp(OpUlt, t, ConstT(t.W, uint64(len(elems))))
	if !p.decide(inb) {
		p.goPanic(fr, "index out of range [symbolic]")
	}
	return &SymRef{elems: elems, idx: t}
}
