package main

import "fmt"

// concLen concretises an allocation length. Lengths up to smallLen are
// enumerated exhaustively. Above it the set of feasible lengths can be huge
// (a declared length read from untrusted input), so the path is continued on
// two representatives only — the smallest and the largest feasible length —
// and the cut is recorded: behaviour that depends on the exact value of a
// large length, beyond what the path condition distinguishes, is outside the
// claim (evidence key "cuts").
const smallLen = 24

func (p *Path) concLen(v Value, what string) int64 {
	t := v.(*Term)
	if t.IsConst() {
		return t.SVal()
	}
	neg := Cmp(OpSlt, t, ConstT(t.W, 0))
	if p.decide(neg) {
		return sext(p.concretize(t, what+" (negative)"), t.W)
	}
	small := Cmp(OpSle, t, ConstT(t.W, smallLen))
	if p.decide(small) {
		return sext(p.concretize(t, what), t.W)
	}
	// large: representatives
	i := p.pos()
	if i < len(p.prefix) {
		d := p.prefix[i]
		p.trace = append(p.trace, d)
		if d.K != 'v' {
			engErr("decision prefix mismatch at %d: %c is not a length representative", i, d.K)
		}
		p.addPC(Eq(t, ConstT(t.W, d.V)))
		return sext(d.V, t.W)
	}
	p.fresh = true
	p.syncPC()
	lo := p.extremum(t, smallLen+1, false)
	hi := p.extremum(t, smallLen+1, true)
	p.eng.noteCut(fmt.Sprintf("%s: lengths above %d explored on the smallest and largest feasible value only", what, smallLen))
	if hi != lo {
		p.alts = append(p.alts, withDec(p.trace, Dec{'v', hi}))
	}
	p.trace = append(p.trace, Dec{'v', lo})
	p.addPC(Eq(t, ConstT(t.W, lo)))
	return sext(lo, t.W)
}

// extremum finds the smallest (max=false) or largest (max=true) feasible
// non-negative value of t that is >= from, by binary search on the solver.
func (p *Path) extremum(t *Term, from uint64, max bool) uint64 {
	lo, hi := from, uint64(1)<<(uint(t.W)-1)-1
	feasible := func(a, b uint64) SatResult {
		p.queries++
		return p.sol.Check(Cmp(OpUle, ConstT(t.W, a), t), Cmp(OpUle, t, ConstT(t.W, b)))
	}
	if r := feasible(lo, hi); r != Sat {
		if r == Unknown {
			p.endPath(OutIncomplete, "solver unknown while bounding a length")
		}
		p.endPath(OutInfeasible, "no feasible length")
	}
	for lo < hi {
		mid := lo + (hi-lo)/2
		var r SatResult
		if max {
			r = feasible(mid+1, hi)
			if r == Sat {
				lo = mid + 1
			} else if r == Unsat {
				hi = mid
			}
		} else {
			r = feasible(lo, mid)
			if r == Sat {
				hi = mid
			} else if r == Unsat {
				lo = mid + 1
			}
		}
		if r == Unknown {
			p.endPath(OutIncomplete, "solver unknown while bounding a length")
		}
	}
	return lo
}
