package main

// SMT term DAG: bit-vectors of width 1..64 and Bool (W==0).
// Terms are immutable; sharing is by pointer identity (the solver session
// names every non-leaf node once with define-fun, so printing is linear).

import (
	"fmt"
	"math/bits"
	"strings"
)

type Op uint8

const (
	OpConst Op = iota
	OpVar
	OpNot // bool
	OpAnd // bool, n-ary
	OpOr  // bool, n-ary
	OpIte // bool or bv
	OpEq
	OpAdd
	OpSub
	OpMul
	OpUDiv
	OpURem
	OpSDiv
	OpSRem
	OpBAnd
	OpBOr
	OpBXor
	OpBNot
	OpNeg
	OpShl
	OpLShr
	OpAShr
	OpUlt
	OpUle
	OpSlt
	OpSle
	OpZExt
	OpSExt
	OpExtract // Hi, Lo
	OpConcat  // Args[0] is high part
	OpUF      // uninterpreted function application, Name
)

var opNames = map[Op]string{
	OpNot: "not", OpAnd: "and", OpOr: "or", OpIte: "ite", OpEq: "=",
	OpAdd: "bvadd", OpSub: "bvsub", OpMul: "bvmul", OpUDiv: "bvudiv", OpURem: "bvurem",
	OpSDiv: "bvsdiv", OpSRem: "bvsrem", OpBAnd: "bvand", OpBOr: "bvor", OpBXor: "bvxor",
	OpBNot: "bvnot", OpNeg: "bvneg", OpShl: "bvshl", OpLShr: "bvlshr", OpAShr: "bvashr",
	OpUlt: "bvult", OpUle: "bvule", OpSlt: "bvslt", OpSle: "bvsle", OpConcat: "concat",
}

type Term struct {
	Op     Op
	W      int // width in bits, 0 = Bool
	Val    uint64
	Name   string
	Hi, Lo int
	Args   []*Term
}

func mask(w int) uint64 {
	if w >= 64 {
		return ^uint64(0)
	}
	return (uint64(1) << uint(w)) - 1
}

var (
	TrueT  = &Term{Op: OpConst, W: 0, Val: 1}
	FalseT = &Term{Op: OpConst, W: 0, Val: 0}
)

func BoolT(b bool) *Term {
	if b {
		return TrueT
	}
	return FalseT
}

// small constants are shared (terms are immutable)
var smallConst [65][256]*Term

func init() {
	for _, w := range []int{1, 8, 16, 32, 64} {
		for v := 0; v < 256; v++ {
			smallConst[w][v] = &Term{Op: OpConst, W: w, Val: uint64(v) & mask(w)}
		}
	}
}

func ConstT(w int, v uint64) *Term {
	if w == 0 {
		return BoolT(v != 0)
	}
	v &= mask(w)
	if v < 256 && w <= 64 {
		if t := smallConst[w][v]; t != nil {
			return t
		}
	}
	return &Term{Op: OpConst, W: w, Val: v}
}

func VarT(name string, w int) *Term { return &Term{Op: OpVar, W: w, Name: name} }

func (t *Term) IsConst() bool { return t.Op == OpConst }
func (t *Term) IsTrue() bool  { return t.Op == OpConst && t.W == 0 && t.Val == 1 }
func (t *Term) IsFalse() bool { return t.Op == OpConst && t.W == 0 && t.Val == 0 }

// signed value of a constant
func (t *Term) SVal() int64 { return sext(t.Val, t.W) }

func sext(v uint64, w int) int64 {
	if w >= 64 {
		return int64(v)
	}
	if v&(uint64(1)<<uint(w-1)) != 0 {
		return int64(v | ^mask(w))
	}
	return int64(v)
}

func Not(a *Term) *Term {
	if a.IsConst() {
		return BoolT(a.Val == 0)
	}
	if a.Op == OpNot {
		return a.Args[0]
	}
	return &Term{Op: OpNot, Args: []*Term{a}}
}

func And(as ...*Term) *Term {
	var out []*Term
	for _, a := range as {
		if a.IsFalse() {
			return FalseT
		}
		if a.IsTrue() {
			continue
		}
		out = append(out, a)
	}
	switch len(out) {
	case 0:
		return TrueT
	case 1:
		return out[0]
	}
	return &Term{Op: OpAnd, Args: out}
}

func Or(as ...*Term) *Term {
	var out []*Term
	for _, a := range as {
		if a.IsTrue() {
			return TrueT
		}
		if a.IsFalse() {
			continue
		}
		out = append(out, a)
	}
	switch len(out) {
	case 0:
		return FalseT
	case 1:
		return out[0]
	}
	return &Term{Op: OpOr, Args: out}
}

func Implies(a, b *Term) *Term { return Or(Not(a), b) }

func Ite(c, a, b *Term) *Term {
	if c.IsConst() {
		if c.Val != 0 {
			return a
		}
		return b
	}
	if a == b {
		return a
	}
	if a.IsConst() && b.IsConst() && a.W == b.W && a.Val == b.Val {
		return a
	}
	if a.W == 0 && a.IsConst() && b.IsConst() {
		if a.Val == 1 && b.Val == 0 {
			return c
		}
		if a.Val == 0 && b.Val == 1 {
			return Not(c)
		}
	}
	return &Term{Op: OpIte, W: a.W, Args: []*Term{c, a, b}}
}

func Eq(a, b *Term) *Term {
	if a.W != b.W {
		panic(fmt.Sprintf("Eq width mismatch %d %d", a.W, b.W))
	}
	if a == b || shallowSame(a, b, 3) {
		return TrueT
	}
	if a.IsConst() && b.IsConst() {
		return BoolT(a.Val == b.Val)
	}
	if a.W == 0 {
		if a.IsConst() {
			if a.Val == 1 {
				return b
			}
			return Not(b)
		}
		if b.IsConst() {
			if b.Val == 1 {
				return a
			}
			return Not(a)
		}
	}
	return &Term{Op: OpEq, Args: []*Term{a, b}}
}

func foldBin(op Op, w int, x, y uint64) (uint64, bool) {
	m := mask(w)
	switch op {
	case OpAdd:
		return (x + y) & m, true
	case OpSub:
		return (x - y) & m, true
	case OpMul:
		return (x * y) & m, true
	case OpUDiv:
		if y == 0 {
			return m, true
		}
		return x / y, true
	case OpURem:
		if y == 0 {
			return x, true
		}
		return x % y, true
	case OpSDiv:
		sx, sy := sext(x, w), sext(y, w)
		if sy == 0 {
			if sx < 0 {
				return 1, true
			}
			return m, true
		}
		if sy == -1 {
			return uint64(-sx) & m, true
		}
		return uint64(sx/sy) & m, true
	case OpSRem:
		sx, sy := sext(x, w), sext(y, w)
		if sy == 0 {
			return x, true
		}
		if sy == -1 {
			return 0, true
		}
		return uint64(sx%sy) & m, true
	case OpBAnd:
		return x & y, true
	case OpBOr:
		return x | y, true
	case OpBXor:
		return x ^ y, true
	case OpShl:
		if y >= uint64(w) {
			return 0, true
		}
		return (x << y) & m, true
	case OpLShr:
		if y >= uint64(w) {
			return 0, true
		}
		return x >> y, true
	case OpAShr:
		sx := sext(x, w)
		if y >= uint64(w) {
			if sx < 0 {
				return m, true
			}
			return 0, true
		}
		return uint64(sx>>y) & m, true
	}
	return 0, false
}

func foldCmp(op Op, w int, x, y uint64) bool {
	switch op {
	case OpUlt:
		return x < y
	case OpUle:
		return x <= y
	case OpSlt:
		return sext(x, w) < sext(y, w)
	case OpSle:
		return sext(x, w) <= sext(y, w)
	}
	panic("foldCmp")
}

// Bin builds a bit-vector binary operation.
func Bin(op Op, a, b *Term) *Term {
	if a.W != b.W || a.W == 0 {
		panic(fmt.Sprintf("Bin %v width mismatch %d %d", opNames[op], a.W, b.W))
	}
	if a.IsConst() && b.IsConst() {
		v, ok := foldBin(op, a.W, a.Val, b.Val)
		if ok {
			return ConstT(a.W, v)
		}
	}
	if op == OpBOr {
		if m := mergeFields(a, b); m != nil {
			return m
		}
	}
	// light identities
	switch op {
	case OpAdd, OpBOr, OpBXor:
		if a.IsConst() && a.Val == 0 {
			return b
		}
		if b.IsConst() && b.Val == 0 {
			return a
		}
	case OpSub, OpShl, OpLShr, OpAShr:
		if b.IsConst() && b.Val == 0 {
			return a
		}
	case OpURem:
		// x % 2^k  =  x & (2^k - 1)
		if b.IsConst() && b.Val != 0 && b.Val&(b.Val-1) == 0 {
			return Bin(OpBAnd, a, ConstT(a.W, b.Val-1))
		}
	case OpUDiv:
		if b.IsConst() && b.Val == 1 {
			return a
		}
	case OpBAnd:
		if a.IsConst() && a.Val == 0 || b.IsConst() && b.Val == 0 {
			return ConstT(a.W, 0)
		}
		if a.IsConst() && a.Val == mask(a.W) {
			return b
		}
		if b.IsConst() && b.Val == mask(a.W) {
			return a
		}
	case OpMul:
		if a.IsConst() && a.Val == 1 {
			return b
		}
		if b.IsConst() && b.Val == 1 {
			return a
		}
		if a.IsConst() && a.Val == 0 || b.IsConst() && b.Val == 0 {
			return ConstT(a.W, 0)
		}
	}
	return &Term{Op: op, W: a.W, Args: []*Term{a, b}}
}

// ---- byte-wise reassembly: x[15:8]<<8 | x[7:0]  =  x[15:0] ----
//
// A value stored to a buffer byte by byte and loaded back (binary.BigEndian /
// LittleEndian) comes back as an OR of shifted, zero-extended slices of one
// term. Adjacent slices are merged so that the round trip yields the original
// term again instead of a formula the solver has to see through.
type bvField struct {
	src     *Term
	hi, lo  int
	pos, tw int
}

func asField(t *Term) (bvField, bool) {
	tw, pos := t.W, 0
	if t.Op == OpShl && t.Args[1].IsConst() {
		pos = int(t.Args[1].Val)
		t = t.Args[0]
	}
	if t.Op == OpZExt {
		t = t.Args[0]
	}
	if t.IsConst() {
		return bvField{}, false
	}
	if t.Op == OpExtract {
		return bvField{t.Args[0], t.Hi, t.Lo, pos, tw}, true
	}
	return bvField{t, t.W - 1, 0, pos, tw}, true
}

func (f bvField) term() *Term {
	s := Extract(f.src, f.hi, f.lo)
	s = ZExt(s, f.tw)
	if f.pos > 0 {
		s = Bin(OpShl, s, ConstT(f.tw, uint64(f.pos)))
	}
	return s
}

func mergeFields(a, b *Term) *Term {
	fa, ok := asField(a)
	if !ok {
		return nil
	}
	fb, ok := asField(b)
	if !ok || fa.src != fb.src || fa.tw != fb.tw {
		return nil
	}
	up, low := fa, fb
	if up.pos < low.pos {
		up, low = low, up
	}
	lw := low.hi - low.lo + 1
	if up.lo != low.hi+1 || up.pos != low.pos+lw || up.pos+(up.hi-up.lo+1) > up.tw {
		return nil
	}
	return bvField{low.src, up.hi, low.lo, low.pos, low.tw}.term()
}

// shallowSame: structurally equal down to a small depth (children by identity)
func shallowSame(a, b *Term, depth int) bool {
	if a == b {
		return true
	}
	if depth == 0 || a.Op != b.Op || a.W != b.W || a.Hi != b.Hi || a.Lo != b.Lo || a.Name != b.Name || len(a.Args) != len(b.Args) {
		return false
	}
	if a.IsConst() {
		return a.Val == b.Val
	}
	if len(a.Args) == 0 {
		return a.Op == OpVar
	}
	for i := range a.Args {
		if !shallowSame(a.Args[i], b.Args[i], depth-1) {
			return false
		}
	}
	return true
}

func Cmp(op Op, a, b *Term) *Term {
	if a.W != b.W || a.W == 0 {
		panic(fmt.Sprintf("Cmp width mismatch %d %d", a.W, b.W))
	}
	if a.IsConst() && b.IsConst() {
		return BoolT(foldCmp(op, a.W, a.Val, b.Val))
	}
	if a == b {
		return BoolT(op == OpUle || op == OpSle)
	}
	return &Term{Op: op, Args: []*Term{a, b}}
}

func BNot(a *Term) *Term {
	if a.IsConst() {
		return ConstT(a.W, ^a.Val)
	}
	return &Term{Op: OpBNot, W: a.W, Args: []*Term{a}}
}

func Neg(a *Term) *Term {
	if a.IsConst() {
		return ConstT(a.W, -a.Val)
	}
	return &Term{Op: OpNeg, W: a.W, Args: []*Term{a}}
}

func Extract(a *Term, hi, lo int) *Term {
	w := hi - lo + 1
	if lo == 0 && w == a.W {
		return a
	}
	if a.IsConst() {
		return ConstT(w, a.Val>>uint(lo))
	}
	// extract of zext/sext within the original width
	if (a.Op == OpZExt || a.Op == OpSExt) && hi < a.Args[0].W {
		return Extract(a.Args[0], hi, lo)
	}
	if a.Op == OpZExt && lo >= a.Args[0].W {
		return ConstT(w, 0)
	}
	if a.Op == OpConcat {
		lw := a.Args[1].W
		if hi < lw {
			return Extract(a.Args[1], hi, lo)
		}
		if lo >= lw {
			return Extract(a.Args[0], hi-lw, lo-lw)
		}
	}
	if a.Op == OpExtract {
		return Extract(a.Args[0], hi+a.Lo, lo+a.Lo)
	}
	return &Term{Op: OpExtract, W: w, Hi: hi, Lo: lo, Args: []*Term{a}}
}

func ZExt(a *Term, w int) *Term {
	if w == a.W {
		return a
	}
	if w < a.W {
		return Extract(a, w-1, 0)
	}
	if a.IsConst() {
		return ConstT(w, a.Val)
	}
	if a.Op == OpZExt {
		return ZExt(a.Args[0], w)
	}
	return &Term{Op: OpZExt, W: w, Args: []*Term{a}}
}

func SExt(a *Term, w int) *Term {
	if w == a.W {
		return a
	}
	if w < a.W {
		return Extract(a, w-1, 0)
	}
	if a.IsConst() {
		return ConstT(w, uint64(sext(a.Val, a.W)))
	}
	return &Term{Op: OpSExt, W: w, Args: []*Term{a}}
}

func Concat(hi, lo *Term) *Term {
	w := hi.W + lo.W
	if w > 64 {
		panic("concat > 64")
	}
	if hi.IsConst() && lo.IsConst() {
		return ConstT(w, hi.Val<<uint(lo.W)|lo.Val)
	}
	// adjacent slices of one term: concat(x[h:m+1], x[m:l]) = x[h:l] (a value
	// written to a buffer byte by byte and read back)
	if hi.Op == OpExtract && lo.Op == OpExtract && hi.Args[0] == lo.Args[0] && hi.Lo == lo.Hi+1 {
		return Extract(hi.Args[0], hi.Hi, lo.Lo)
	}
	if hi.Op == OpExtract && lo.Op != OpExtract && hi.Args[0] == lo && hi.Lo == lo.W && false {
		return lo
	}
	// concat(x[h:m+1], concat(x[m:l], rest)) = concat(x[h:l], rest)
	if hi.Op == OpExtract && lo.Op == OpConcat && lo.Args[0].Op == OpExtract && lo.Args[0].Args[0] == hi.Args[0] && hi.Lo == lo.Args[0].Hi+1 {
		return Concat(Extract(hi.Args[0], hi.Hi, lo.Args[0].Lo), lo.Args[1])
	}
	// concat(concat(a, x[m:l]), x[l-1:k]) = concat(a, x[m:k])
	if lo.Op == OpExtract && hi.Op == OpConcat && hi.Args[1].Op == OpExtract && hi.Args[1].Args[0] == lo.Args[0] && hi.Args[1].Lo == lo.Hi+1 {
		return Concat(hi.Args[0], Extract(lo.Args[0], hi.Args[1].Hi, lo.Lo))
	}
	return &Term{Op: OpConcat, W: w, Args: []*Term{hi, lo}}
}

// UF application. w = result width (0 = Bool).
func UF(name string, w int, args ...*Term) *Term {
	return &Term{Op: OpUF, W: w, Name: name, Args: args}
}

// BoolToBV converts a Bool to a 1/0 bit-vector of width w.
func BoolToBV(c *Term, w int) *Term { return Ite(c, ConstT(w, 1), ConstT(w, 0)) }

func sortOf(w int) string {
	if w == 0 {
		return "Bool"
	}
	return fmt.Sprintf("(_ BitVec %d)", w)
}

func constLit(t *Term) string {
	if t.W == 0 {
		if t.Val != 0 {
			return "true"
		}
		return "false"
	}
	if t.W%4 == 0 {
		return fmt.Sprintf("#x%0*x", t.W/4, t.Val)
	}
	return fmt.Sprintf("#b%0*b", t.W, t.Val)
}

// Eval evaluates t under a model (variables by name; missing variables are 0).
// UF applications are looked up in uf (name + args key) if present, else 0.
type Model struct {
	Vars map[string]uint64
	UFs  map[string]uint64
}

func (m *Model) Eval(t *Term) uint64 {
	memo := map[*Term]uint64{}
	return m.eval(t, memo)
}

func (m *Model) eval(t *Term, memo map[*Term]uint64) uint64 {
	if t.Op == OpConst {
		return t.Val
	}
	if v, ok := memo[t]; ok {
		return v
	}
	var r uint64
	a := func(i int) uint64 { return m.eval(t.Args[i], memo) }
	switch t.Op {
	case OpVar:
		r = m.Vars[t.Name] & mask64(t.W)
	case OpNot:
		r = 1 - a(0)
	case OpAnd:
		r = 1
		for i := range t.Args {
			if a(i) == 0 {
				r = 0
				break
			}
		}
	case OpOr:
		r = 0
		for i := range t.Args {
			if a(i) != 0 {
				r = 1
				break
			}
		}
	case OpIte:
		if a(0) != 0 {
			r = a(1)
		} else {
			r = a(2)
		}
	case OpEq:
		if a(0) == a(1) {
			r = 1
		}
	case OpAdd, OpSub, OpMul, OpUDiv, OpURem, OpSDiv, OpSRem, OpBAnd, OpBOr, OpBXor, OpShl, OpLShr, OpAShr:
		r, _ = foldBin(t.Op, t.W, a(0), a(1))
	case OpUlt, OpUle, OpSlt, OpSle:
		if foldCmp(t.Op, t.Args[0].W, a(0), a(1)) {
			r = 1
		}
	case OpBNot:
		r = ^a(0) & mask(t.W)
	case OpNeg:
		r = -a(0) & mask(t.W)
	case OpZExt:
		r = a(0)
	case OpSExt:
		r = uint64(sext(a(0), t.Args[0].W)) & mask(t.W)
	case OpExtract:
		r = (a(0) >> uint(t.Lo)) & mask(t.W)
	case OpConcat:
		r = a(0)<<uint(t.Args[1].W) | a(1)
	case OpUF:
		key := t.Name
		for i := range t.Args {
			key += fmt.Sprintf(",%d", a(i))
		}
		r = m.UFs[key] & mask64(t.W)
	default:
		panic("eval: op")
	}
	memo[t] = r
	return r
}

func mask64(w int) uint64 {
	if w == 0 {
		return 1
	}
	return mask(w)
}

// String renders a term as a tree (debug / samples only; may be large).
func (t *Term) String() string {
	var sb strings.Builder
	t.write(&sb, 0)
	return sb.String()
}

func (t *Term) write(sb *strings.Builder, depth int) {
	if depth > 12 {
		sb.WriteString("…")
		return
	}
	switch t.Op {
	case OpConst:
		sb.WriteString(constLit(t))
	case OpVar:
		sb.WriteString(t.Name)
	case OpExtract:
		fmt.Fprintf(sb, "((_ extract %d %d) ", t.Hi, t.Lo)
		t.Args[0].write(sb, depth+1)
		sb.WriteString(")")
	case OpZExt, OpSExt:
		n := "zero_extend"
		if t.Op == OpSExt {
			n = "sign_extend"
		}
		fmt.Fprintf(sb, "((_ %s %d) ", n, t.W-t.Args[0].W)
		t.Args[0].write(sb, depth+1)
		sb.WriteString(")")
	case OpUF:
		sb.WriteString("(" + t.Name)
		for _, a := range t.Args {
			sb.WriteString(" ")
			a.write(sb, depth+1)
		}
		sb.WriteString(")")
	default:
		sb.WriteString("(" + opNames[t.Op])
		for _, a := range t.Args {
			sb.WriteString(" ")
			a.write(sb, depth+1)
		}
		sb.WriteString(")")
	}
}

var _ = bits.Len
