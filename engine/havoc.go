package main

import (
	"go/types"

	"golang.org/x/tools/go/ssa"
)

// havocFn models a function as "returns arbitrary values of its result types
// and has no side effects" (used for total library functions outside NoKV).
func havocFn(fn *ssa.Function) externalFn {
	return func(p *Path, th *Thread, fr *frame, args []Value) Value {
		res := fn.Signature.Results()
		vals := make(Tuple, res.Len())
		for i := 0; i < res.Len(); i++ {
			vals[i] = p.havocValue(res.At(i).Type(), fn.Name())
		}
		switch len(vals) {
		case 0:
			return nil
		case 1:
			return vals[0]
		}
		return vals
	}
}

func (p *Path) havocValue(t types.Type, name string) Value {
	if types.Identical(t, types.Universe.Lookup("error").Type()) {
		b := p.newVar("havoc_"+name+"_err", 8)
		if p.decide(Eq(b, ConstT(8, 0))) {
			return Iface{}
		}
		return p.eng.makeError(p, "havoc: "+name+" failed", nil)
	}
	if b, ok := t.Underlying().(*types.Basic); ok {
		if w := intWidth(b); w > 0 {
			return p.newVar("havoc_"+name, w)
		} else if w == 0 {
			v := p.newVar("havoc_"+name, 8)
			return Eq(v, ConstT(8, 1))
		}
	}
	return zero(t)
}
