package main

import (
	"fmt"
	"go/constant"
	"go/token"
	"go/types"
	"math"
	"unicode/utf8"

	"golang.org/x/tools/go/ssa"
)

func constantBool(c *ssa.Const) bool     { return constant.BoolVal(c.Value) }
func constantString(c *ssa.Const) string { return constant.StringVal(c.Value) }

func (p *Path) binop(fr *frame, op token.Token, t types.Type, x, y Value) Value {
	switch xv := x.(type) {
	case *Term:
		yv, ok := y.(*Term)
		if !ok {
			engErr("binop %v: %T vs %T", op, x, y)
		}
		return p.binopTerm(fr, op, t, xv, yv)
	case float64:
		yv := y.(float64)
		switch op {
		case token.ADD:
			return xv + yv
		case token.SUB:
			return xv - yv
		case token.MUL:
			return xv * yv
		case token.QUO:
			return xv / yv
		case token.EQL:
			return BoolT(xv == yv)
		case token.NEQ:
			return BoolT(xv != yv)
		case token.LSS:
			return BoolT(xv < yv)
		case token.LEQ:
			return BoolT(xv <= yv)
		case token.GTR:
			return BoolT(xv > yv)
		case token.GEQ:
			return BoolT(xv >= yv)
		}
	case float32:
		yv := y.(float32)
		switch op {
		case token.ADD:
			return xv + yv
		case token.SUB:
			return xv - yv
		case token.MUL:
			return xv * yv
		case token.QUO:
			return xv / yv
		case token.EQL:
			return BoolT(xv == yv)
		case token.NEQ:
			return BoolT(xv != yv)
		case token.LSS:
			return BoolT(xv < yv)
		case token.LEQ:
			return BoolT(xv <= yv)
		case token.GTR:
			return BoolT(xv > yv)
		case token.GEQ:
			return BoolT(xv >= yv)
		}
	case string, *SymStr:
		switch op {
		case token.ADD:
			if xs, ok := x.(string); ok {
				if ys, ok := y.(string); ok {
					return xs + ys
				}
			}
			return mkStr(append(append([]*Term{}, strTerms(x)...), strTerms(y)...))
		case token.EQL:
			return strEq(x, y)
		case token.NEQ:
			return Not(strEq(x, y))
		case token.LSS:
			return bytesLess(strTerms(x), strTerms(y))
		case token.GTR:
			return bytesLess(strTerms(y), strTerms(x))
		case token.LEQ:
			return Not(bytesLess(strTerms(y), strTerms(x)))
		case token.GEQ:
			return Not(bytesLess(strTerms(x), strTerms(y)))
		}
	}
	switch op {
	case token.EQL:
		return p.eqOrNil(t, x, y)
	case token.NEQ:
		return Not(p.eqOrNil(t, x, y))
	}
	engErr("binop %v on %T, %T", op, x, y)
	return nil
}

// eqOrNil handles ==, including comparison of slices/maps/funcs with nil.
func (p *Path) eqOrNil(t types.Type, x, y Value) *Term {
	switch t.Underlying().(type) {
	case *types.Slice:
		xs, _ := x.([]Value)
		ys, _ := y.([]Value)
		return BoolT((xs == nil) == (ys == nil) && (xs == nil || ys == nil))
	case *types.Map:
		xm, _ := x.(*Map)
		ym, _ := y.(*Map)
		return BoolT(xm == ym)
	case *types.Signature:
		return BoolT(isNilFunc(x) == isNilFunc(y) && (isNilFunc(x) || sameFunc(x, y)))
	}
	return eqTerm(t, x, y)
}

func isNilFunc(v Value) bool {
	switch f := v.(type) {
	case *ssa.Function:
		return f == nil
	case *Closure:
		return f == nil
	case *ssa.Builtin:
		return f == nil
	case nil:
		return true
	}
	return false
}

func sameFunc(x, y Value) bool { return x == y }

func (p *Path) binopTerm(fr *frame, op token.Token, t types.Type, x, y *Term) Value {
	signed := isSigned(t)
	if x.W == 0 { // bool
		switch op {
		case token.EQL:
			return Eq(x, y)
		case token.NEQ:
			return Not(Eq(x, y))
		case token.LAND, token.AND:
			return And(x, y)
		case token.LOR, token.OR:
			return Or(x, y)
		}
		engErr("bool binop %v", op)
	}
	switch op {
	case token.SHL, token.SHR:
		return p.shift(fr, op, signed, x, y)
	}
	if x.W != y.W {
		engErr("binop %v width mismatch %d/%d at %s", op, x.W, y.W, posOf(p, fr.curInstr))
	}
	switch op {
	case token.ADD:
		return Bin(OpAdd, x, y)
	case token.SUB:
		return Bin(OpSub, x, y)
	case token.MUL:
		return Bin(OpMul, x, y)
	case token.QUO, token.REM:
		if p.decide(Eq(y, ConstT(y.W, 0))) {
			p.goPanic(fr, "integer divide by zero")
		}
		if signed {
			if op == token.QUO {
				return Bin(OpSDiv, x, y)
			}
			return Bin(OpSRem, x, y)
		}
		if op == token.QUO {
			return Bin(OpUDiv, x, y)
		}
		return Bin(OpURem, x, y)
	case token.AND:
		return Bin(OpBAnd, x, y)
	case token.OR:
		return Bin(OpBOr, x, y)
	case token.XOR:
		return Bin(OpBXor, x, y)
	case token.AND_NOT:
		return Bin(OpBAnd, x, BNot(y))
	case token.EQL:
		return Eq(x, y)
	case token.NEQ:
		return Not(Eq(x, y))
	case token.LSS:
		if signed {
			return Cmp(OpSlt, x, y)
		}
		return Cmp(OpUlt, x, y)
	case token.LEQ:
		if signed {
			return Cmp(OpSle, x, y)
		}
		return Cmp(OpUle, x, y)
	case token.GTR:
		if signed {
			return Cmp(OpSlt, y, x)
		}
		return Cmp(OpUlt, y, x)
	case token.GEQ:
		if signed {
			return Cmp(OpSle, y, x)
		}
		return Cmp(OpUle, y, x)
	}
	engErr("int binop %v", op)
	return nil
}

func (p *Path) shift(fr *frame, op token.Token, signed bool, x, y *Term) *Term {
	// normalise the shift count to x's width; counts >= width give 0 / sign fill
	var cnt *Term
	var big *Term = FalseT
	switch {
	case y.W == x.W:
		cnt = y
	case y.W < x.W:
		cnt = ZExt(y, x.W)
	default:
		cnt = Extract(y, x.W-1, 0)
		big = Not(Eq(Extract(y, y.W-1, x.W), ConstT(y.W-x.W, 0)))
	}
	var r *Term
	switch {
	case op == token.SHL:
		r = Bin(OpShl, x, cnt)
		if !big.IsFalse() {
			r = Ite(big, ConstT(x.W, 0), r)
		}
	case signed:
		r = Bin(OpAShr, x, cnt)
		if !big.IsFalse() {
			r = Ite(big, Bin(OpAShr, x, ConstT(x.W, uint64(x.W-1))), r)
		}
	default:
		r = Bin(OpLShr, x, cnt)
		if !big.IsFalse() {
			r = Ite(big, ConstT(x.W, 0), r)
		}
	}
	return r
}

// ---- conversions ----

func (p *Path) conv(fr *frame, tdst, tsrc types.Type, x Value) Value {
	ud := tdst.Underlying()
	us := tsrc.Underlying()
	// pointers / unsafe.Pointer pass through
	switch ud := ud.(type) {
	case *types.Pointer:
		switch x.(type) {
		case *Value:
			return x
		}
		if xt, ok := x.(*Term); ok && xt.IsConst() && xt.Val == 0 {
			return (*Value)(nil)
		}
		engErr("conversion to pointer from %T", x)
	case *types.Basic:
		if ud.Kind() == types.UnsafePointer {
			switch x.(type) {
			case *Value:
				return x
			}
			if xt, ok := x.(*Term); ok && xt.IsConst() && xt.Val == 0 {
				return (*Value)(nil)
			}
			engErr("conversion to unsafe.Pointer from %T at %s", x, posOf(p, fr.curInstr))
		}
	case *types.Slice:
		// string -> []byte / []rune
		if isStringType(us) {
			if eb, ok := ud.Elem().Underlying().(*types.Basic); ok {
				switch eb.Kind() {
				case types.Uint8:
					return termsToSlice(append([]*Term{}, strTerms(x)...))
				case types.Int32:
					s, ok := x.(string)
					if !ok {
						engErr("[]rune of symbolic string")
					}
					var out []Value
					for _, r := range s {
						out = append(out, ConstT(32, uint64(r)))
					}
					if out == nil {
						out = []Value{}
					}
					return out
				}
			}
		}
		return x
	}
	if isStringType(ud) {
		switch x := x.(type) {
		case string, *SymStr:
			return x
		case []Value:
			if len(x) == 0 {
				return ""
			}
			if t0, ok := x[0].(*Term); ok && t0.W == 8 {
				return mkStr(sliceTerms(x))
			}
			// []rune -> string
			var rs []rune
			for _, e := range x {
				t := e.(*Term)
				if !t.IsConst() {
					engErr("string of symbolic runes")
				}
				rs = append(rs, rune(t.SVal()))
			}
			return string(rs)
		case *Term:
			// integer -> string (rune)
			if !x.IsConst() {
				// fork over ASCII / non ASCII is overkill: concretise
				v := p.concInt(x, "rune to string")
				return string(rune(v))
			}
			return string(rune(x.SVal()))
		}
	}
	bd, okd := ud.(*types.Basic)
	bs, oks := us.(*types.Basic)
	if okd && oks {
		switch x := x.(type) {
		case *Term:
			if x.W == 0 {
				return x
			}
			switch {
			case bd.Info()&types.IsInteger != 0:
				w := intWidth(bd)
				if w <= x.W {
					return Extract(x, w-1, 0)
				}
				if bs.Info()&types.IsUnsigned != 0 {
					return ZExt(x, w)
				}
				return SExt(x, w)
			case bd.Info()&types.IsFloat != 0:
				if !x.IsConst() {
					engErr("symbolic integer converted to float at %s", posOf(p, fr.curInstr))
				}
				var f float64
				if bs.Info()&types.IsUnsigned != 0 {
					f = float64(x.Val)
				} else {
					f = float64(x.SVal())
				}
				if bd.Kind() == types.Float32 {
					return float32(f)
				}
				return f
			case bd.Kind() == types.UnsafePointer:
				if x.IsConst() && x.Val == 0 {
					return (*Value)(nil)
				}
			}
		case float64:
			return convFloat(bd, x)
		case float32:
			return convFloat(bd, float64(x))
		case complex128:
			return x
		case *Value:
			if bd.Kind() == types.Uintptr {
				if x == nil {
					return ConstT(64, 0)
				}
				// pointer -> uintptr: give a stable fake address
				return ConstT(64, p.fakeAddr(x))
			}
		}
	}
	// identical underlying types (named <-> unnamed etc.)
	return x
}

func convFloat(bd *types.Basic, f float64) Value {
	switch {
	case bd.Kind() == types.Float64 || bd.Kind() == types.UntypedFloat:
		return f
	case bd.Kind() == types.Float32:
		return float32(f)
	case bd.Info()&types.IsInteger != 0:
		w := intWidth(bd)
		if bd.Info()&types.IsUnsigned != 0 {
			if f < 0 || f >= math.Exp2(64) {
				return ConstT(w, uint64(int64(f)))
			}
			return ConstT(w, uint64(f))
		}
		return ConstT(w, uint64(int64(f)))
	}
	engErr("float conversion to %v", bd)
	return nil
}

func (p *Path) fakeAddr(x *Value) uint64 {
	if p.ghost == nil {
		p.ghost = map[string]Value{}
	}
	key := fmt.Sprintf("addr:%p", x)
	if v, ok := p.ghost[key]; ok {
		return v.(uint64)
	}
	a := uint64(0xc000000000) + uint64(len(p.ghost))*64
	p.ghost[key] = a
	return a
}

func isStringType(t types.Type) bool {
	b, ok := t.Underlying().(*types.Basic)
	return ok && b.Info()&types.IsString != 0
}

// ---- maps ----

func (p *Path) mapFind(m *Map, key Value) *mapEntry {
	if m == nil {
		return nil
	}
	ck, conc := concreteKey(key)
	if conc && m.nsym == 0 {
		return m.index[ck]
	}
	for _, e := range m.entries {
		if p.decide(eqTerm(m.keyT, key, e.k)) {
			return e
		}
	}
	return nil
}

func (p *Path) lookup(fr *frame, instr *ssa.Lookup, x, idx Value) Value {
	switch x := x.(type) {
	case *Map:
		var v Value
		ok := false
		if e := p.mapFind(x, idx); e != nil {
			v, ok = copyVal(e.v), true
		} else {
			v = zero(instr.X.Type().Underlying().(*types.Map).Elem())
		}
		if instr.CommaOk {
			return Tuple{v, BoolT(ok)}
		}
		return v
	case string, *SymStr:
		n := strLen(x)
		it := idx.(*Term)
		if it.IsConst() {
			return strAt(x, p.index(fr, it, n))
		}
		return p.indexRead(fr, termsToSlice(strTerms(x)), it)
	}
	engErr("lookup on %T", x)
	return nil
}

func (p *Path) mapUpdate(m *Map, key, val Value) {
	if e := p.mapFind(m, key); e != nil {
		e.v = val
		return
	}
	e := &mapEntry{k: key, v: val}
	m.entries = append(m.entries, e)
	if ck, ok := concreteKey(key); ok {
		m.index[ck] = e
	} else {
		m.nsym++
	}
}

func (p *Path) mapDelete(m *Map, key Value) {
	if m == nil {
		return
	}
	e := p.mapFind(m, key)
	if e == nil {
		return
	}
	for i, x := range m.entries {
		if x == e {
			m.entries = append(m.entries[:i:i], m.entries[i+1:]...)
			break
		}
	}
	if ck, ok := concreteKey(e.k); ok {
		delete(m.index, ck)
	} else {
		m.nsym--
	}
}

type mapIter struct {
	m    *Map
	snap []*mapEntry
	i    int
}

func (it *mapIter) next(p *Path) Tuple {
	for it.i < len(it.snap) {
		e := it.snap[it.i]
		it.i++
		// skip entries deleted during iteration
		live := false
		for _, x := range it.m.entries {
			if x == e {
				live = true
				break
			}
		}
		if live {
			return Tuple{TrueT, copyVal(e.k), copyVal(e.v)}
		}
	}
	return Tuple{FalseT, nil, nil}
}

type stringIter struct {
	s string
	i int
}

func (it *stringIter) next(p *Path) Tuple {
	if it.i >= len(it.s) {
		return Tuple{FalseT, nil, nil}
	}
	r, n := utf8.DecodeRuneInString(it.s[it.i:])
	k := it.i
	it.i += n
	return Tuple{TrueT, mkInt(int64(k)), ConstT(32, uint64(r))}
}

type symStrIter struct {
	s *SymStr
	i int
}

func (it *symStrIter) next(p *Path) Tuple {
	if it.i >= len(it.s.B) {
		return Tuple{FalseT, nil, nil}
	}
	r, size := p.decodeRuneSym(it.s.B[it.i:])
	k := it.i
	it.i += size
	return Tuple{TrueT, mkInt(int64(k)), r}
}

// decodeRuneSym is utf8.DecodeRune over symbolic bytes: it forks on the
// encoding class of the lead byte and on the validity of the continuation
// bytes, and returns the rune as a 32-bit term.
func (p *Path) decodeRuneSym(b []*Term) (*Term, int) {
	bad := ConstT(32, 0xFFFD)
	in := func(c *Term, lo, hi uint64) bool {
		return p.decide(And(Cmp(OpUle, ConstT(8, lo), c), Cmp(OpUle, c, ConstT(8, hi))))
	}
	low6 := func(c *Term) *Term { return ZExt(Bin(OpBAnd, c, ConstT(8, 0x3F)), 32) }
	b0 := b[0]
	if p.decide(Cmp(OpUlt, b0, ConstT(8, 0x80))) {
		return ZExt(b0, 32), 1
	}
	switch {
	case in(b0, 0xC2, 0xDF):
		if len(b) < 2 || !in(b[1], 0x80, 0xBF) {
			return bad, 1
		}
		hi := Bin(OpShl, ZExt(Bin(OpBAnd, b0, ConstT(8, 0x1F)), 32), ConstT(32, 6))
		return Bin(OpBOr, hi, low6(b[1])), 2
	case in(b0, 0xE0, 0xEF):
		if len(b) < 3 {
			return bad, 1
		}
		lo1, hi1 := uint64(0x80), uint64(0xBF)
		if p.decide(Eq(b0, ConstT(8, 0xE0))) {
			lo1 = 0xA0
		} else if p.decide(Eq(b0, ConstT(8, 0xED))) {
			hi1 = 0x9F
		}
		if !in(b[1], lo1, hi1) || !in(b[2], 0x80, 0xBF) {
			return bad, 1
		}
		r := Bin(OpShl, ZExt(Bin(OpBAnd, b0, ConstT(8, 0x0F)), 32), ConstT(32, 12))
		r = Bin(OpBOr, r, Bin(OpShl, low6(b[1]), ConstT(32, 6)))
		return Bin(OpBOr, r, low6(b[2])), 3
	case in(b0, 0xF0, 0xF4):
		if len(b) < 4 {
			return bad, 1
		}
		lo1, hi1 := uint64(0x80), uint64(0xBF)
		if p.decide(Eq(b0, ConstT(8, 0xF0))) {
			lo1 = 0x90
		} else if p.decide(Eq(b0, ConstT(8, 0xF4))) {
			hi1 = 0x8F
		}
		if !in(b[1], lo1, hi1) || !in(b[2], 0x80, 0xBF) || !in(b[3], 0x80, 0xBF) {
			return bad, 1
		}
		r := Bin(OpShl, ZExt(Bin(OpBAnd, b0, ConstT(8, 0x07)), 32), ConstT(32, 18))
		r = Bin(OpBOr, r, Bin(OpShl, low6(b[1]), ConstT(32, 12)))
		r = Bin(OpBOr, r, Bin(OpShl, low6(b[2]), ConstT(32, 6)))
		return Bin(OpBOr, r, low6(b[3])), 4
	}
	return bad, 1
}

func (p *Path) rangeIter(fr *frame, x Value) iter {
	switch x := x.(type) {
	case *Map:
		if x == nil {
			return &mapIter{m: &Map{}}
		}
		snap := append([]*mapEntry{}, x.entries...)
		if p.eng.mapOrderForks && len(snap) > 1 {
			// Go's iteration order is unspecified: fork over rotations
			k := p.choose(len(snap))
			snap = append(snap[k:], snap[:k]...)
		}
		return &mapIter{m: x, snap: snap}
	case string:
		return &stringIter{s: x}
	case *SymStr:
		return &symStrIter{s: x}
	}
	engErr("range over %T", x)
	return nil
}

// ---- builtins ----

func (p *Path) callBuiltin(th *Thread, caller *frame, fn *ssa.Builtin, args []Value) Value {
	switch fn.Name() {
	case "append":
		if len(args) == 1 {
			return args[0]
		}
		var tail []Value
		switch s := args[1].(type) {
		case string, *SymStr:
			tail = termsToSlice(strTerms(s))
		case []Value:
			tail = s
		}
		if len(tail) == 0 {
			return args[0]
		}
		head := args[0].([]Value)
		n := len(head) + len(tail)
		if n <= cap(head) {
			r := head[:n]
			for i, e := range tail {
				r[len(head)+i] = copyVal(e)
			}
			return r
		}
		// grow like the runtime roughly does (capacity is observable only via cap())
		nc := 2 * cap(head)
		if nc < n {
			nc = n
		}
		r := make([]Value, n, nc)
		copy(r, head)
		for i, e := range tail {
			r[len(head)+i] = copyVal(e)
		}
		full := r[:nc]
		if nc > n {
			// zero the spare capacity lazily: elements beyond len are zero values
			var z Value
			if len(head) > 0 {
				z = zeroLike(head[0])
			} else {
				z = zeroLike(tail[0])
			}
			for i := n; i < nc; i++ {
				full[i] = copyVal(z)
			}
		}
		return r

	case "copy":
		dst := args[0].([]Value)
		var src []Value
		switch s := args[1].(type) {
		case string, *SymStr:
			src = termsToSlice(strTerms(s))
		case []Value:
			src = s
		}
		n := len(dst)
		if len(src) < n {
			n = len(src)
		}
		tmp := make([]Value, n)
		for i := 0; i < n; i++ {
			tmp[i] = copyVal(src[i])
		}
		copy(dst, tmp)
		return mkInt(int64(n))

	case "close":
		p.chanClose(caller, args[0].(*Chan))
		return nil

	case "delete":
		p.mapDelete(args[0].(*Map), args[1])
		return nil

	case "clear":
		switch x := args[0].(type) {
		case *Map:
			if x != nil {
				x.entries = nil
				x.index = map[any]*mapEntry{}
				x.nsym = 0
			}
		case []Value:
			for i := range x {
				x[i] = zeroLike(x[i])
			}
		}
		return nil

	case "print", "println":
		return nil

	case "len":
		switch x := args[0].(type) {
		case string, *SymStr:
			return mkInt(int64(strLen(x)))
		case Array:
			return mkInt(int64(len(x)))
		case *Value:
			if x == nil {
				engErr("len of nil array pointer")
			}
			return mkInt(int64(len((*x).(Array))))
		case []Value:
			return mkInt(int64(len(x)))
		case *Map:
			if x == nil {
				return mkInt(0)
			}
			return mkInt(int64(len(x.entries)))
		case *Chan:
			if x == nil {
				return mkInt(0)
			}
			return mkInt(int64(len(x.buf)))
		}
		engErr("len of %T", args[0])

	case "cap":
		switch x := args[0].(type) {
		case Array:
			return mkInt(int64(len(x)))
		case *Value:
			return mkInt(int64(len((*x).(Array))))
		case []Value:
			return mkInt(int64(cap(x)))
		case *Chan:
			if x == nil {
				return mkInt(0)
			}
			return mkInt(int64(x.cap))
		}
		engErr("cap of %T", args[0])

	case "min", "max":
		isMin := fn.Name() == "min"
		sig := fn.Type().(*types.Signature)
		rt := sig.Results().At(0).Type()
		acc := args[0]
		for _, a := range args[1:] {
			switch x := acc.(type) {
			case *Term:
				y := a.(*Term)
				var lt *Term
				if isSigned(rt) {
					lt = Cmp(OpSlt, y, x)
				} else {
					lt = Cmp(OpUlt, y, x)
				}
				if isMin {
					acc = Ite(lt, y, x)
				} else {
					acc = Ite(lt, x, y)
				}
			case float64:
				if isMin {
					acc = math.Min(x, a.(float64))
				} else {
					acc = math.Max(x, a.(float64))
				}
			case string:
				y := a.(string)
				if (y < x) == isMin {
					acc = y
				}
			default:
				engErr("min/max of %T", acc)
			}
		}
		return acc

	case "panic":
		panic(targetPanic{v: args[0]})

	case "recover":
		return p.doRecover(caller)

	case "ssa:wrapnilchk":
		recv := args[0]
		if ptr, ok := recv.(*Value); ok && ptr == nil {
			p.goPanic(caller, "value method called using nil pointer")
		}
		return recv

	case "ssa:deferstack":
		return &caller.defers

	case "real":
		return real(args[0].(complex128))
	case "imag":
		return imag(args[0].(complex128))
	case "complex":
		return complex(args[0].(float64), args[1].(float64))

	// unsafe builtins on byte data
	case "String": // unsafe.String(ptr *byte, len)
		return p.unsafeString(caller, args[0], args[1])
	case "SliceData": // unsafe.SliceData([]T) *T
		s := args[0].([]Value)
		if cap(s) == 0 {
			return (*Value)(nil)
		}
		full := s[:1]
		// remember the slice so unsafe.String/Slice can rebuild it
		ptr := &full[0]
		p.noteSliceData(ptr, s)
		return ptr
	case "StringData":
		engErr("unsafe.StringData")
	case "Slice": // unsafe.Slice(ptr, len)
		return p.unsafeSlice(caller, args[0], args[1])
	case "Add", "Offsetof", "Alignof", "Sizeof":
		engErr("unsafe.%s", fn.Name())
	}
	engErr("unknown builtin %s", fn.Name())
	return nil
}

func zeroLike(v Value) Value {
	switch v := v.(type) {
	case *Term:
		return ConstT(v.W, 0)
	case float64:
		return float64(0)
	case float32:
		return float32(0)
	case string, *SymStr:
		return ""
	case *Value:
		return (*Value)(nil)
	case []Value:
		return []Value(nil)
	case *Map:
		return (*Map)(nil)
	case *Chan:
		return (*Chan)(nil)
	case Iface:
		return Iface{}
	case Struct:
		s := make(Struct, len(v))
		for i := range v {
			s[i] = zeroLike(v[i])
		}
		return s
	case Array:
		s := make(Array, len(v))
		for i := range v {
			s[i] = zeroLike(v[i])
		}
		return s
	case *ssa.Function, *Closure:
		return (*ssa.Function)(nil)
	case complex128:
		return complex128(0)
	}
	engErr("zeroLike %T", v)
	return nil
}

func (p *Path) noteSliceData(ptr *Value, s []Value) {
	if p.ghost == nil {
		p.ghost = map[string]Value{}
	}
	p.ghost[fmt.Sprintf("sd:%p", ptr)] = s[:cap(s)]
}

func (p *Path) sliceFromData(ptr *Value) []Value {
	if p.ghost != nil {
		if s, ok := p.ghost[fmt.Sprintf("sd:%p", ptr)]; ok {
			return s.([]Value)
		}
	}
	return nil
}

func (p *Path) unsafeString(fr *frame, ptrv, lenv Value) Value {
	n := p.concInt(lenv, "unsafe.String len")
	ptr := ptrv.(*Value)
	if n == 0 {
		return ""
	}
	s := p.sliceFromData(ptr)
	if s == nil || int64(len(s)) < n {
		engErr("unsafe.String on unknown pointer")
	}
	return mkStr(sliceTerms(s[:n]))
}

func (p *Path) unsafeSlice(fr *frame, ptrv, lenv Value) Value {
	n := p.concInt(lenv, "unsafe.Slice len")
	ptr := ptrv.(*Value)
	if ptr == nil {
		return []Value(nil)
	}
	s := p.sliceFromData(ptr)
	if s == nil || int64(len(s)) < n {
		engErr("unsafe.Slice on unknown pointer")
	}
	return s[:n:n]
}
