package main

// Symbolic interpreter for go/ssa (structure follows x/tools/go/ssa/interp,
// values follow value.go; every branch on a symbolic condition goes through
// Path.decide).

import (
	"fmt"
	"go/token"
	"go/types"
	"os"
	"strings"

	"golang.org/x/tools/go/ssa"
)

type continuation int

const (
	kNext continuation = iota
	kReturn
	kJump
)

type deferred struct {
	fn    Value
	args  []Value
	instr *ssa.Defer
	tail  *deferred
}

type frame struct {
	p                *Path
	th               *Thread
	caller           *frame
	fn               *ssa.Function
	block, prevBlock *ssa.BasicBlock
	env              map[ssa.Value]Value
	locals           []Value
	defers           *deferred
	result           Value
	panicking        bool
	panicVal         any
	curInstr         ssa.Instruction
	symBranches      map[ssa.Instruction]int
	pkgInit          bool
	phitemps         []Value
}

func (fr *frame) get(key ssa.Value) Value {
	switch key := key.(type) {
	case nil:
		return nil
	case *ssa.Function, *ssa.Builtin:
		return key
	case *ssa.Const:
		return constValue(key)
	case *ssa.Global:
		return fr.p.global(key)
	}
	if r, ok := fr.env[key]; ok {
		return r
	}
	engErr("get: no value for %T: %v in %s", key, key.Name(), fr.fn)
	return nil
}

func constValue(c *ssa.Const) Value {
	if c.Value == nil {
		return zero(c.Type())
	}
	t := c.Type().Underlying()
	if b, ok := t.(*types.Basic); ok {
		switch {
		case b.Kind() == types.Bool || b.Kind() == types.UntypedBool:
			return BoolT(constantBool(c))
		case b.Info()&types.IsInteger != 0:
			w := intWidth(b)
			if b.Info()&types.IsUnsigned != 0 {
				return ConstT(w, c.Uint64())
			}
			return ConstT(w, uint64(c.Int64()))
		case b.Kind() == types.Float32:
			return float32(c.Float64())
		case b.Kind() == types.Float64 || b.Kind() == types.UntypedFloat:
			return c.Float64()
		case b.Kind() == types.Complex64 || b.Kind() == types.Complex128:
			return c.Complex128()
		case b.Kind() == types.String || b.Kind() == types.UntypedString:
			return constantString(c)
		case b.Kind() == types.UnsafePointer:
			return (*Value)(nil)
		}
	}
	// type parameter constants etc.
	if _, ok := t.(*types.TypeParam); ok {
		engErr("constant of type parameter type")
	}
	engErr("constValue: %v of type %v", c, c.Type())
	return nil
}

func (p *Path) global(g *ssa.Global) *Value {
	if c, ok := p.globals[g]; ok {
		return c
	}
	// first touch of a package: allocate all its globals, then run its init
	pkg := g.Pkg
	if pkg != nil && !p.inited[pkg] {
		p.initPackage(pkg)
		if c, ok := p.globals[g]; ok {
			return c
		}
	}
	cell := new(Value)
	*cell = zero(deref(g.Type()))
	p.globals[g] = cell
	return cell
}

func (p *Path) initPackage(pkg *ssa.Package) {
	p.inited[pkg] = true
	for _, m := range pkg.Members {
		if g, ok := m.(*ssa.Global); ok {
			if _, ok := p.globals[g]; !ok {
				cell := new(Value)
				*cell = zero(deref(g.Type()))
				p.globals[g] = cell
			}
		}
	}
	path := pkg.Pkg.Path()
	if fix, ok := p.eng.pkgInitFix[path]; ok {
		fix(p, pkg)
		return
	}
	if p.eng.opaquePkg(path) {
		return
	}
	initFn := pkg.Func("init")
	if initFn == nil || initFn.Blocks == nil {
		return
	}
	th := p.cur
	fr := &frame{p: p, th: th, fn: initFn, pkgInit: true}
	if th != nil {
		fr.caller = th.top
	}
	p.runFunction(fr, initFn, nil, nil)
}

// ---- calls ----

func (p *Path) prepareCall(fr *frame, call *ssa.CallCommon) (fn Value, args []Value) {
	v := fr.get(call.Value)
	if call.Method == nil {
		fn = v
	} else {
		recv := v.(Iface)
		if recv.T == nil {
			p.goPanic(fr, "invalid memory address or nil pointer dereference (method call on nil interface)")
		}
		f := p.eng.prog.LookupMethod(recv.T, call.Method.Pkg(), call.Method.Name())
		if f == nil {
			engErr("method set for dynamic type %v does not contain %s", recv.T, call.Method)
		}
		fn = f
		args = append(args, recv.V)
	}
	for _, arg := range call.Args {
		args = append(args, copyVal(fr.get(arg)))
	}
	return
}

func (p *Path) call(th *Thread, caller *frame, fn Value, args []Value) Value {
	switch fn := fn.(type) {
	case *ssa.Function:
		if fn == nil {
			p.goPanicTh(th, caller, "invalid memory address or nil pointer dereference (call of nil func)")
		}
		return p.callSSA(th, caller, fn, args, nil)
	case *Closure:
		return p.callSSA(th, caller, fn.Fn, args, fn.Env)
	case *ssa.Builtin:
		return p.callBuiltin(th, caller, fn, args)
	case *nativeFn:
		fn.f(p, th)
		return nil
	}
	engErr("cannot call %T", fn)
	return nil
}

func funcKey(fn *ssa.Function) string {
	if o := fn.Origin(); o != nil {
		return o.String()
	}
	return fn.String()
}

func (p *Path) callSSA(th *Thread, caller *frame, fn *ssa.Function, args []Value, env []Value) Value {
	fr := &frame{p: p, th: th, caller: caller, fn: fn}
	if caller != nil && caller.pkgInit && fn.Name() == "init" && fn.Synthetic != "" && fn.Pkg != caller.fn.Pkg {
		// lazy package initialisation: imported packages are initialised on
		// first touch of one of their globals
		return nil
	}
	if fn.Parent() == nil {
		key := funcKey(fn)
		if fn.Pkg != nil && fn.Blocks == nil && strings.HasSuffix(fn.Pkg.Pkg.Path(), "/verifsym") {
			sf := symFns[fn.Name()]
			if sf == nil {
				engErr("unknown verifsym intrinsic %s", fn.Name())
			}
			return sf(p, th, fr, args)
		}
		if stub := p.eng.replace[key]; stub != nil && !(caller != nil && caller.fn == stub) {
			return p.callSSA(th, caller, stub, args, nil)
		}
		if ext := p.eng.externals[key]; ext != nil {
			th.depth++
			old := th.top
			th.top = fr
			defer func() { th.top = old; th.depth-- }()
			return ext(p, th, fr, args)
		}
	}
	if fn.Blocks == nil {
		st := ""
		if th != nil {
			st = th.stack()
		}
		engErr("no code for function %s (needs a stub)\n%s", fn.String(), st)
	}
	if fn.TypeParams().Len() > 0 && len(fn.TypeArgs()) == 0 {
		engErr("uninstantiated generic function %s", fn)
	}
	return p.runFunction(fr, fn, args, env)
}

func (p *Path) runFunction(fr *frame, fn *ssa.Function, args []Value, env []Value) Value {
	th := fr.th
	if th != nil {
		th.depth++
		if th.depth > p.eng.cfg.MaxDepth {
			p.endPath(OutIncomplete, "call depth limit in "+fn.String())
		}
		old := th.top
		th.top = fr
		defer func() { th.top = old; th.depth-- }()
	}
	fr.env = make(map[ssa.Value]Value, 16)
	fr.block = fn.Blocks[0]
	fr.locals = make([]Value, len(fn.Locals))
	for i, l := range fn.Locals {
		fr.locals[i] = zero(deref(l.Type()))
		fr.env[l] = &fr.locals[i]
	}
	for i, prm := range fn.Params {
		fr.env[prm] = args[i]
	}
	for i, fv := range fn.FreeVars {
		fr.env[fv] = env[i]
	}
	for fr.block != nil {
		p.runFrame(fr)
	}
	return fr.result
}

func (p *Path) runFrame(fr *frame) {
	defer func() {
		if fr.block == nil {
			return // normal return
		}
		r := recover()
		switch rr := r.(type) {
		case targetPanic:
		case pathEnd, engineError:
			panic(r)
		default:
			// interpreter crash (a Go runtime error inside the engine): attach the
			// target stack once, at the innermost frame
			var sb strings.Builder
			for f, n := fr, 0; f != nil && n < 12; f, n = f.caller, n+1 {
				fmt.Fprintf(&sb, "  at %s %s [%v]\n", f.fn.String(), posOf(p, f.curInstr), f.curInstr)
			}
			panic(engineError{fmt.Sprintf("interpreter crash: %v\n%s", rr, sb.String())})
		}
		fr.panicking = true
		fr.panicVal = r
		fr.runDefers()
		fr.block = fr.fn.Recover
		if fr.block == nil {
			// recovered in a function without named results: return zero values
			fr.result = zero(fr.fn.Signature.Results())
			if fr.fn.Signature.Results().Len() == 0 {
				fr.result = nil
			}
		}
	}()

	for {
		nonPhis := p.executePhis(fr)
		for _, instr := range nonPhis {
			fr.curInstr = instr
			p.steps++
			if p.steps > p.eng.cfg.MaxSteps {
				p.endPath(OutIncomplete, "instruction limit")
			}
			if p.eng.cfg.Trace {
				if v, ok := instr.(ssa.Value); ok {
					fmt.Fprintf(os.Stderr, "[%d] %s\t%s = %s\n", fr.th.id, fr.fn.Name(), v.Name(), instr)
				} else {
					fmt.Fprintf(os.Stderr, "[%d] %s\t%s\n", fr.th.id, fr.fn.Name(), instr)
				}
			}
			switch p.visitInstr(fr, instr) {
			case kReturn:
				return
			case kJump:
				goto nextBlock
			}
		}
	nextBlock:
	}
}

func (p *Path) executePhis(fr *frame) []ssa.Instruction {
	firstNonPhi := -1
	for i, instr := range fr.block.Instrs {
		if _, ok := instr.(*ssa.Phi); !ok {
			firstNonPhi = i
			break
		}
	}
	nonPhis := fr.block.Instrs[firstNonPhi:]
	if firstNonPhi > 0 {
		phis := fr.block.Instrs[:firstNonPhi]
		predIndex := -1
		for i, b := range fr.block.Preds {
			if b == fr.prevBlock {
				predIndex = i
				break
			}
		}
		fr.phitemps = fr.phitemps[:0]
		for _, phi := range phis {
			fr.phitemps = append(fr.phitemps, fr.get(phi.(*ssa.Phi).Edges[predIndex]))
		}
		for i, phi := range phis {
			fr.env[phi.(*ssa.Phi)] = fr.phitemps[i]
		}
	}
	return nonPhis
}

func (fr *frame) runDefer(d *deferred) {
	var ok bool
	defer func() {
		if !ok {
			r := recover()
			if _, isT := r.(targetPanic); !isT {
				panic(r)
			}
			fr.panicking = true
			fr.panicVal = r
		}
	}()
	fr.p.call(fr.th, fr, d.fn, d.args)
	ok = true
}

func (fr *frame) runDefers() {
	for d := fr.defers; d != nil; d = d.tail {
		fr.runDefer(d)
	}
	fr.defers = nil
	if fr.panicking {
		panic(fr.panicVal)
	}
}

// goPanic raises a Go runtime panic in the target program.
func (p *Path) goPanic(fr *frame, msg string) {
	where := ""
	for f, n := fr, 0; f != nil && n < 6; f, n = f.caller, n+1 {
		where += " <- " + f.fn.Name() + "@" + posOf(p, f.curInstr)
	}
	panic(targetPanic{v: p.runtimeErrorValue(msg), msg: "runtime error: " + msg + where})
}

func (p *Path) goPanicTh(th *Thread, fr *frame, msg string) { p.goPanic(fr, msg) }

func (p *Path) runtimeErrorValue(msg string) Value {
	// runtime.Error implementations live in package runtime; we model them by
	// an interface value whose dynamic type is runtime.errorString when the
	// runtime package is loaded, else a plain string.
	if t := p.eng.runtimeErrorString; t != nil {
		return Iface{T: t, V: "runtime error: " + msg}
	}
	return Iface{T: types.Typ[types.String], V: "runtime error: " + msg}
}

func (p *Path) doRecover(caller *frame) Value {
	if caller != nil && !caller.panicking && caller.caller != nil && caller.caller.panicking {
		caller.caller.panicking = false
		pv := caller.caller.panicVal
		caller.caller.panicVal = nil
		switch pv := pv.(type) {
		case targetPanic:
			return pv.v
		default:
			engErr("unexpected panic value %T in recover", pv)
		}
	}
	return Iface{}
}

// ---- instructions ----

func (p *Path) visitInstr(fr *frame, instr ssa.Instruction) continuation {
	switch instr := instr.(type) {
	case *ssa.DebugRef:

	case *ssa.UnOp:
		fr.env[instr] = p.unop(fr, instr, fr.get(instr.X))

	case *ssa.BinOp:
		fr.env[instr] = p.binop(fr, instr.Op, instr.X.Type(), fr.get(instr.X), fr.get(instr.Y))

	case *ssa.Call:
		fn, args := p.prepareCall(fr, &instr.Call)
		fr.env[instr] = p.call(fr.th, fr, fn, args)

	case *ssa.ChangeInterface:
		fr.env[instr] = fr.get(instr.X)

	case *ssa.ChangeType:
		fr.env[instr] = fr.get(instr.X)

	case *ssa.Convert:
		fr.env[instr] = p.conv(fr, instr.Type(), instr.X.Type(), fr.get(instr.X))

	case *ssa.MultiConvert:
		fr.env[instr] = p.conv(fr, instr.Type(), instr.X.Type(), fr.get(instr.X))

	case *ssa.SliceToArrayPointer:
		x := fr.get(instr.X).([]Value)
		n := deref(instr.Type()).Underlying().(*types.Array).Len()
		if int64(len(x)) < n {
			p.goPanic(fr, "cannot convert slice to array pointer: length too short")
		}
		if x == nil {
			fr.env[instr] = (*Value)(nil)
		} else {
			var cell Value = Array(x[:n:n])
			fr.env[instr] = &cell
		}

	case *ssa.MakeInterface:
		fr.env[instr] = Iface{T: instr.X.Type(), V: fr.get(instr.X)}

	case *ssa.Extract:
		fr.env[instr] = fr.get(instr.Tuple).(Tuple)[instr.Index]

	case *ssa.Slice:
		fr.env[instr] = p.slice(fr, instr, fr.get(instr.X), idx64(fr, instr.Low), idx64(fr, instr.High), idx64(fr, instr.Max))

	case *ssa.Return:
		switch len(instr.Results) {
		case 0:
		case 1:
			fr.result = copyVal(fr.get(instr.Results[0]))
		default:
			res := make(Tuple, 0, len(instr.Results))
			for _, r := range instr.Results {
				res = append(res, copyVal(fr.get(r)))
			}
			fr.result = res
		}
		fr.block = nil
		return kReturn

	case *ssa.RunDefers:
		fr.runDefers()

	case *ssa.Panic:
		v := fr.get(instr.X)
		panic(targetPanic{v: v})

	case *ssa.Send:
		p.chanSend(fr, fr.get(instr.Chan).(*Chan), fr.get(instr.X))

	case *ssa.Store:
		if r, ok := fr.get(instr.Addr).(*SymRef); ok {
			r.store(fr.get(instr.Val).(*Term))
			break
		}
		addr := fr.get(instr.Addr).(*Value)
		if addr == nil {
			p.goPanic(fr, "invalid memory address or nil pointer dereference")
		}
		store(addr, fr.get(instr.Val))

	case *ssa.If:
		c := fr.get(instr.Cond).(*Term)
		var taken bool
		if c.IsConst() {
			taken = c.Val != 0
		} else {
			if fr.symBranches == nil {
				fr.symBranches = map[ssa.Instruction]int{}
			}
			fr.symBranches[instr]++
			n := fr.symBranches[instr]
			if n > p.maxUnwind {
				p.maxUnwind = n
			}
			if n > p.eng.cfg.Unwind {
				p.endPath(OutIncomplete, fmt.Sprintf("unwinding limit %d at %s", p.eng.cfg.Unwind, p.eng.prog.Fset.Position(instr.Pos())))
			}
			taken = p.decide(c)
		}
		succ := 1
		if taken {
			succ = 0
		}
		fr.prevBlock, fr.block = fr.block, fr.block.Succs[succ]
		return kJump

	case *ssa.Jump:
		fr.prevBlock, fr.block = fr.block, fr.block.Succs[0]
		return kJump

	case *ssa.Defer:
		fn, args := p.prepareCall(fr, &instr.Call)
		defers := &fr.defers
		if instr.DeferStack != nil {
			if into := fr.get(instr.DeferStack); into != nil {
				defers = into.(**deferred)
			}
		}
		*defers = &deferred{fn: fn, args: args, instr: instr, tail: *defers}

	case *ssa.Go:
		fn, args := p.prepareCall(fr, &instr.Call)
		p.spawn(fr, fn, args)

	case *ssa.MakeChan:
		n := p.concInt(fr.get(instr.Size), "chan size")
		p.nextChanID++
		fr.env[instr] = &Chan{cap: int(n), id: p.nextChanID}

	case *ssa.Alloc:
		var addr *Value
		if instr.Heap {
			addr = new(Value)
			fr.env[instr] = addr
		} else {
			addr = fr.env[instr].(*Value)
		}
		*addr = zero(deref(instr.Type()))

	case *ssa.MakeSlice:
		tElt := instr.Type().Underlying().(*types.Slice).Elem()
		ln := p.makeLen(fr, fr.get(instr.Len), tElt, "make([]T, len)")
		cp := ln
		if instr.Cap != instr.Len {
			cp = p.makeLen(fr, fr.get(instr.Cap), tElt, "make([]T, len, cap)")
		}
		if ln < 0 || cp < ln {
			p.goPanic(fr, "makeslice: len out of range")
		}
		s := make([]Value, cp)
		if z, ok := zero(tElt).(*Term); ok {
			for i := range s {
				s[i] = z
			}
		} else {
			for i := range s {
				s[i] = zero(tElt)
			}
		}
		fr.env[instr] = s[:ln]

	case *ssa.MakeMap:
		if instr.Reserve != nil {
			p.makeLen(fr, fr.get(instr.Reserve), nil, "make(map, n)")
		}
		fr.env[instr] = &Map{keyT: instr.Type().Underlying().(*types.Map).Key(), index: map[any]*mapEntry{}}

	case *ssa.Range:
		fr.env[instr] = p.rangeIter(fr, fr.get(instr.X))

	case *ssa.Next:
		fr.env[instr] = fr.get(instr.Iter).(iter).next(p)

	case *ssa.FieldAddr:
		x := fr.get(instr.X).(*Value)
		if x == nil {
			p.goPanic(fr, "invalid memory address or nil pointer dereference")
		}
		fr.env[instr] = &(*x).(Struct)[instr.Field]

	case *ssa.Field:
		fr.env[instr] = copyVal(fr.get(instr.X).(Struct)[instr.Field])

	case *ssa.IndexAddr:
		x := fr.get(instr.X)
		switch x := x.(type) {
		case []Value:
			if r := p.symRef(fr, x, idx64(fr, instr.Index)); r != nil {
				fr.env[instr] = r
				break
			}
			i := p.index(fr, idx64(fr, instr.Index), len(x))
			fr.env[instr] = &x[i]
		case *Value:
			if x == nil {
				p.goPanic(fr, "invalid memory address or nil pointer dereference")
			}
			a := (*x).(Array)
			if r := p.symRef(fr, []Value(a), idx64(fr, instr.Index)); r != nil {
				fr.env[instr] = r
				break
			}
			i := p.index(fr, idx64(fr, instr.Index), len(a))
			fr.env[instr] = &a[i]
		default:
			engErr("IndexAddr on %T", x)
		}

	case *ssa.Index:
		x := fr.get(instr.X)
		switch x := x.(type) {
		case Array:
			fr.env[instr] = copyVal(p.indexRead(fr, []Value(x), idx64(fr, instr.Index)))
		case string, *SymStr:
			n := strLen(x)
			idx := idx64(fr, instr.Index).(*Term)
			if idx.IsConst() {
				i := p.index(fr, idx, n)
				fr.env[instr] = strAt(x, i)
			} else {
				fr.env[instr] = p.indexRead(fr, termsToSlice(strTerms(x)), idx)
			}
		default:
			engErr("Index on %T", x)
		}

	case *ssa.Lookup:
		fr.env[instr] = p.lookup(fr, instr, fr.get(instr.X), lookupIdx(fr, instr))

	case *ssa.MapUpdate:
		m := fr.get(instr.Map).(*Map)
		if m == nil {
			panic(targetPanic{v: p.runtimeErrorValue("assignment to entry in nil map"), msg: "assignment to entry in nil map"})
		}
		p.mapUpdate(m, copyVal(fr.get(instr.Key)), copyVal(fr.get(instr.Value)))

	case *ssa.TypeAssert:
		fr.env[instr] = p.typeAssert(fr, instr, fr.get(instr.X).(Iface))

	case *ssa.MakeClosure:
		var bindings []Value
		for _, b := range instr.Bindings {
			bindings = append(bindings, fr.get(b))
		}
		fr.env[instr] = &Closure{instr.Fn.(*ssa.Function), bindings}

	case *ssa.Phi:
		engErr("phi outside block entry")

	case *ssa.Select:
		fr.env[instr] = p.selectStmt(fr, instr)

	default:
		engErr("unexpected instruction %T", instr)
	}
	return kNext
}

// makeLen concretises a make() size after consulting the allocation monitor.
func (p *Path) makeLen(fr *frame, v Value, elem types.Type, what string) int64 {
	t := v.(*Term)
	es := int64(1)
	if elem != nil {
		es = p.eng.sizes.Sizeof(elem)
		if es < 1 {
			es = 1
		}
	}
	if p.allocBudget >= 0 {
		// assertion: size*elemsize <= budget for every input on this path
		w := t.W
		var over *Term
		if isNegPossible(t) {
			// negative sizes panic (handled by caller); only positive sizes allocate
		}
		// 64 KiB of slack: the native replay measures allocation with some noise,
		// so a reported counterexample must be clearly over the budget
		lim := (p.allocBudget + 65536) / es
		over = And(Cmp(OpSlt, ConstT(w, uint64(lim)), t))
		// prefer a counterexample that is far over the budget (so that the native
		// replay can measure it), fall back to any
		big := lim
		if big < (8<<20)/es {
			big = (8 << 20) / es
		}
		p.assertPrefer = Cmp(OpSlt, ConstT(w, uint64(big)), t)
		p.assertTerm(Not(over), "alloc-bounded", fmt.Sprintf("%s of %d-byte elements, budget %d bytes, at %s", what, es, p.allocBudget, p.eng.prog.Fset.Position(fr.curInstr.Pos())))
		p.assertPrefer = nil
	}
	n := p.concLen(t, what)
	if n > 1<<26 {
		// never actually allocate absurd sizes inside the engine
		if p.allocBudget >= 0 {
			p.endPath(OutInfeasible, "allocation over budget (already reported)")
		}
		engErr("%s with size %d at %s: no allocation budget set by the harness", what, n, p.eng.prog.Fset.Position(fr.curInstr.Pos()))
	}
	return n
}

func isNegPossible(t *Term) bool { return !t.IsConst() || t.SVal() < 0 }

// index bounds-checks and concretises an index.
func (p *Path) index(fr *frame, iv Value, n int) int {
	t := iv.(*Term)
	if t.IsConst() {
		i := t.SVal()
		if i < 0 || i >= int64(n) {
			p.goPanic(fr, fmt.Sprintf("index out of range [%d] with length %d", i, n))
		}
		return int(i)
	}
	inb := Cmp(OpUlt, t, ConstT(t.W, uint64(n)))
	if !p.decide(inb) {
		p.goPanic(fr, fmt.Sprintf("index out of range [symbolic] with length %d", n))
	}
	return int(p.concretize(t, "index"))
}

// indexRead reads elems[idx] for a possibly symbolic idx as an ite chain when
// the elements are scalars (no fork per index value).
func (p *Path) indexRead(fr *frame, elems []Value, iv Value) Value {
	t := iv.(*Term)
	if t.IsConst() {
		return elems[p.index(fr, t, len(elems))]
	}
	inb := Cmp(OpUlt, t, ConstT(t.W, uint64(len(elems))))
	if !p.decide(inb) {
		p.goPanic(fr, fmt.Sprintf("index out of range [symbolic] with length %d", len(elems)))
	}
	allTerms := len(elems) > 0
	for _, e := range elems {
		if _, ok := e.(*Term); !ok {
			allTerms = false
			break
		}
	}
	if !allTerms || len(elems) > 1024 {
		return elems[p.concretize(t, "index")]
	}
	res := elems[len(elems)-1].(*Term)
	for i := len(elems) - 2; i >= 0; i-- {
		res = Ite(Eq(t, ConstT(t.W, uint64(i))), elems[i].(*Term), res)
	}
	return res
}

func (p *Path) unop(fr *frame, instr *ssa.UnOp, x Value) Value {
	switch instr.Op {
	case token.MUL: // load
		if r, ok := x.(*SymRef); ok {
			return r.load()
		}
		ptr, ok := x.(*Value)
		if !ok {
			engErr("load through %T", x)
		}
		if ptr == nil {
			p.goPanic(fr, "invalid memory address or nil pointer dereference")
		}
		// fast path: a load of a byte/int from an IndexAddr with symbolic index is
		// handled in IndexAddr by concretisation
		return load(ptr)
	case token.ARROW:
		return p.chanRecv(fr, x.(*Chan), instr.CommaOk, instr.X.Type().Underlying().(*types.Chan).Elem())
	case token.SUB:
		switch x := x.(type) {
		case *Term:
			return Neg(x)
		case float64:
			return -x
		case float32:
			return -x
		case complex128:
			return -x
		}
	case token.NOT:
		return Not(x.(*Term))
	case token.XOR:
		return BNot(x.(*Term))
	}
	engErr("unop %v on %T", instr.Op, x)
	return nil
}

func (p *Path) typeAssert(fr *frame, instr *ssa.TypeAssert, itf Iface) Value {
	var v Value
	err := ""
	if idst, ok := instr.AssertedType.Underlying().(*types.Interface); ok && !isTypeParam(instr.AssertedType) {
		v = itf
		if itf.T == nil {
			err = "interface conversion: interface is nil"
		} else if m, _ := types.MissingMethod(itf.T, idst, true); m != nil {
			err = fmt.Sprintf("interface conversion: %v is not %v: missing method %s", itf.T, idst, m.Name())
		}
	} else if itf.T != nil && types.Identical(itf.T, instr.AssertedType) {
		v = itf.V
	} else {
		if itf.T == nil {
			err = fmt.Sprintf("interface conversion: interface is nil, not %v", instr.AssertedType)
		} else {
			err = fmt.Sprintf("interface conversion: interface is %v, not %v", itf.T, instr.AssertedType)
		}
	}
	if err != "" {
		if !instr.CommaOk {
			p.goPanic(fr, err)
		}
		return Tuple{zero(instr.AssertedType), FalseT}
	}
	if instr.CommaOk {
		return Tuple{v, TrueT}
	}
	return v
}

func isTypeParam(t types.Type) bool {
	_, ok := t.(*types.TypeParam)
	return ok
}

func (p *Path) slice(fr *frame, instr *ssa.Slice, x, lo, hi, max Value) Value {
	var Len, Cap int
	switch x := x.(type) {
	case string, *SymStr:
		Len = strLen(x)
		Cap = Len
	case []Value:
		Len, Cap = len(x), cap(x)
	case *Value:
		if x == nil {
			p.goPanic(fr, "invalid memory address or nil pointer dereference")
		}
		a := (*x).(Array)
		Len, Cap = len(a), cap(a)
		if Cap > Len {
			Cap = Len
		}
	default:
		engErr("slice of %T", x)
	}
	l := int64(0)
	if lo != nil {
		l = p.boundInt(fr, lo, int64(Cap), "slice low bound")
	}
	h := int64(Len)
	if hi != nil {
		h = p.boundInt(fr, hi, int64(Cap), "slice high bound")
	}
	m := int64(Cap)
	if max != nil {
		m = p.boundInt(fr, max, int64(Cap), "slice max bound")
	}
	if _, isStr := x.(string); isStr && h > int64(Len) {
		p.goPanic(fr, fmt.Sprintf("slice bounds out of range [:%d] with length %d", h, Len))
	}
	if _, isStr := x.(*SymStr); isStr && h > int64(Len) {
		p.goPanic(fr, fmt.Sprintf("slice bounds out of range [:%d] with length %d", h, Len))
	}
	if l < 0 || h < l || m < h || m > int64(Cap) {
		p.goPanic(fr, fmt.Sprintf("slice bounds out of range [%d:%d:%d] with capacity %d", l, h, m, Cap))
	}
	switch x := x.(type) {
	case string:
		return x[l:h]
	case *SymStr:
		return mkStr(x.B[l:h])
	case []Value:
		if x == nil {
			return []Value(nil)
		}
		return x[l:h:m]
	case *Value:
		a := (*x).(Array)
		return []Value(a)[l:h:m]
	}
	return nil
}

// boundInt concretises a slice bound; out-of-range values are reported as a
// Go panic (one fork) instead of being enumerated.
func (p *Path) boundInt(fr *frame, v Value, capv int64, what string) int64 {
	t := v.(*Term)
	if t.IsConst() {
		return t.SVal()
	}
	ok := Cmp(OpUle, t, ConstT(t.W, uint64(capv)))
	if !p.decide(ok) {
		p.goPanic(fr, fmt.Sprintf("slice bounds out of range [symbolic %s] with capacity %d", what, capv))
	}
	return int64(p.concretize(t, what))
}

func (p *Path) spawn(fr *frame, fn Value, args []Value) {
	th := p.newThread(fn, args)
	_ = th
	// the new thread becomes runnable; the spawner keeps running until its
	// next visible operation
	p.yield(fr.th)
}

func posOf(p *Path, instr ssa.Instruction) string {
	if instr == nil {
		return ""
	}
	s := p.eng.prog.Fset.Position(instr.Pos()).String()
	return strings.TrimPrefix(s, "/repo/")
}

// idx64 fetches an index / slice bound operand widened to 64 bits according to
// its static type (negative values become huge unsigned values, so that one
// unsigned comparison with the length covers both ends).
func idx64(fr *frame, v ssa.Value) Value {
	if v == nil {
		return nil
	}
	x := fr.get(v)
	t, ok := x.(*Term)
	if !ok || t.W == 64 {
		return x
	}
	if isSigned(v.Type()) {
		return SExt(t, 64)
	}
	return ZExt(t, 64)
}

func lookupIdx(fr *frame, instr *ssa.Lookup) Value {
	if _, isMap := instr.X.Type().Underlying().(*types.Map); isMap {
		return fr.get(instr.Index)
	}
	return idx64(fr, instr.Index)
}
