package main

// One long-lived SMT solver process (z3 -in / cvc5 --incremental) per worker.
// No set-logic line (z3 4.8.12 silently drops what it cannot parse under a
// restrictive logic); any "(error" line makes the session inconclusive.

import (
	"bufio"
	"fmt"
	"io"
	"os/exec"
	"strconv"
	"strings"
	"time"
)

type SatResult int

const (
	Unsat SatResult = iota
	Sat
	Unknown
)

func (r SatResult) String() string { return [...]string{"unsat", "sat", "unknown"}[r] }

type Solver struct {
	kind    string // z3 | z3-new | cvc5
	cmd     *exec.Cmd
	in      io.WriteCloser
	out     *bufio.Reader
	names   map[*Term]string
	vars    map[string]int // declared variable -> width
	ufs     map[string]string
	next    int
	Errors  []string
	Queries int
	NSat    int
	NUnsat  int
	NUnk    int
	Time    time.Duration
	timeout int // ms
	buf     strings.Builder
	logW    io.Writer

	started         bool
	pathsSinceReset int
	// dead: the solver process was killed by the watchdog (a query ran far past
	// its timeout). Every further query of the current path answers Unknown; the
	// process is restarted at the next Reset.
	dead     bool
	Watchdog int
}

func NewSolverProc(kind string, timeoutMs int) (*Solver, error) {
	var cmd *exec.Cmd
	switch kind {
	case "z3":
		cmd = exec.Command("/usr/bin/z3", "-in")
	case "z3-new":
		cmd = exec.Command("z3-new", "-in")
	case "cvc5":
		cmd = exec.Command("cvc5", "--incremental", "--lang=smt2", "--produce-models", fmt.Sprintf("--tlimit-per=%d", timeoutMs))
	default:
		return nil, fmt.Errorf("unknown solver %q", kind)
	}
	in, err := cmd.StdinPipe()
	if err != nil {
		return nil, err
	}
	outp, err := cmd.StdoutPipe()
	if err != nil {
		return nil, err
	}
	cmd.Stderr = cmd.Stdout
	if err := cmd.Start(); err != nil {
		return nil, err
	}
	s := &Solver{kind: kind, cmd: cmd, in: in, out: bufio.NewReaderSize(outp, 1<<16), timeout: timeoutMs}
	return s, nil
}

func NewSolver(kind string, timeoutMs int) (*Solver, error) {
	s, err := NewSolverProc(kind, timeoutMs)
	if err != nil {
		return nil, err
	}
	s.Reset()
	return s, nil
}

func (s *Solver) Close() {
	if s == nil || s.cmd == nil {
		return
	}
	s.in.Close()
	s.cmd.Process.Kill()
	s.cmd.Wait()
}

func (s *Solver) send(line string) {
	s.buf.WriteString(line)
	s.buf.WriteByte('\n')
}

func (s *Solver) flush() {
	if s.buf.Len() == 0 {
		return
	}
	if s.logW != nil {
		io.WriteString(s.logW, s.buf.String())
	}
	io.WriteString(s.in, s.buf.String())
	s.buf.Reset()
}

// Reset clears all assertions and definitions (start of a new path).
func (s *Solver) restart() {
	s.in.Close()
	s.cmd.Process.Kill()
	s.cmd.Wait()
	n, err := NewSolverProc(s.kind, s.timeout)
	if err != nil {
		s.Errors = append(s.Errors, "solver restart: "+err.Error())
		return
	}
	s.cmd, s.in, s.out = n.cmd, n.in, n.out
	s.buf.Reset()
	s.started = false
	s.dead = false
}

func (s *Solver) Reset() {
	if s.dead {
		s.restart()
	}
	s.names = map[*Term]string{}
	s.vars = map[string]int{}
	s.ufs = map[string]string{}
	s.next = 0
	if s.kind == "cvc5" {
		s.send("(reset)")
		s.send("(set-logic ALL)")
		return
	}
	// A full (reset) makes z3 tear down and rebuild its context (expensive in
	// system time); between paths a scope pop is enough. Every resetEvery paths
	// the context is rebuilt to bound solver memory.
	s.pathsSinceReset++
	if s.started && s.pathsSinceReset < resetEvery {
		s.send("(pop 1)")
		s.send("(push 1)")
		return
	}
	s.started = true
	s.pathsSinceReset = 0
	s.send("(reset)")
	s.send("(set-option :produce-models true)")
	s.send(fmt.Sprintf("(set-option :timeout %d)", s.timeout))
	s.send("(push 1)")
}

const resetEvery = 256

// name returns the SMT-LIB identifier for t, emitting declarations and
// definitions for every node not yet known in this session.
func (s *Solver) name(t *Term) string {
	if t.Op == OpConst {
		return constLit(t)
	}
	if n, ok := s.names[t]; ok {
		return n
	}
	var n string
	switch t.Op {
	case OpVar:
		if w, ok := s.vars[t.Name]; ok {
			if w != t.W {
				s.Errors = append(s.Errors, fmt.Sprintf("variable %s declared with widths %d and %d", t.Name, w, t.W))
			}
		} else {
			s.send(fmt.Sprintf("(declare-const %s %s)", t.Name, sortOf(t.W)))
			s.vars[t.Name] = t.W
		}
		n = t.Name
	default:
		args := make([]string, len(t.Args))
		for i, a := range t.Args {
			args[i] = s.name(a)
		}
		var expr string
		switch t.Op {
		case OpExtract:
			expr = fmt.Sprintf("((_ extract %d %d) %s)", t.Hi, t.Lo, args[0])
		case OpZExt:
			expr = fmt.Sprintf("((_ zero_extend %d) %s)", t.W-t.Args[0].W, args[0])
		case OpSExt:
			expr = fmt.Sprintf("((_ sign_extend %d) %s)", t.W-t.Args[0].W, args[0])
		case OpUF:
			sig := ""
			for _, a := range t.Args {
				sig += sortOf(a.W) + " "
			}
			sig = "(" + strings.TrimSpace(sig) + ") " + sortOf(t.W)
			if old, ok := s.ufs[t.Name]; ok {
				if old != sig {
					s.Errors = append(s.Errors, "UF "+t.Name+" used with two signatures")
				}
			} else {
				s.send(fmt.Sprintf("(declare-fun %s %s)", t.Name, sig))
				s.ufs[t.Name] = sig
			}
			if len(args) == 0 {
				expr = t.Name
			} else {
				expr = "(" + t.Name + " " + strings.Join(args, " ") + ")"
			}
		default:
			expr = "(" + opNames[t.Op] + " " + strings.Join(args, " ") + ")"
		}
		s.next++
		n = "t!" + strconv.Itoa(s.next)
		s.send(fmt.Sprintf("(define-fun %s () %s %s)", n, sortOf(t.W), expr))
	}
	s.names[t] = n
	return n
}

func (s *Solver) Assert(t *Term) {
	if t.IsTrue() {
		return
	}
	s.send("(assert " + s.name(t) + ")")
}

func (s *Solver) Push() { s.send("(push 1)") }
func (s *Solver) Pop()  { s.send("(pop 1)") }

// Check decides satisfiability of the current assertions plus the given
// extra conjuncts (which are not retained).
func (s *Solver) Check(extra ...*Term) SatResult {
	for _, e := range extra {
		if e.IsFalse() {
			return Unsat
		}
	}
	var lits []string
	for _, e := range extra {
		if e.IsTrue() {
			continue
		}
		lits = append(lits, s.name(e))
	}
	if len(lits) == 0 {
		s.send("(check-sat)")
	} else if s.kind == "cvc5" {
		s.send("(push 1)")
		for _, l := range lits {
			s.send("(assert " + l + ")")
		}
		s.send("(check-sat)")
	} else {
		s.send("(check-sat-assuming (" + strings.Join(lits, " ") + "))")
	}
	t0 := time.Now()
	if s.dead {
		s.buf.Reset()
	}
	s.flush()
	res := s.readCheck()
	if len(lits) > 0 && s.kind == "cvc5" {
		s.send("(pop 1)")
	}
	s.Time += time.Since(t0)
	s.Queries++
	switch res {
	case Sat:
		s.NSat++
	case Unsat:
		s.NUnsat++
	default:
		s.NUnk++
	}
	return res
}

// CheckBoth decides c and (not c) under the current assertions in one round
// trip (z3 only; cvc5 falls back to two calls).
func (s *Solver) CheckBoth(c *Term) (SatResult, SatResult) {
	if s.kind == "cvc5" {
		rt := s.Check(c)
		rf := s.Check(Not(c))
		return rt, rf
	}
	n := s.name(c)
	nn := s.name(Not(c))
	s.send("(check-sat-assuming (" + n + "))")
	s.send("(check-sat-assuming (" + nn + "))")
	t0 := time.Now()
	if s.dead {
		s.buf.Reset()
	}
	s.flush()
	rt := s.readCheck()
	rf := s.readCheck()
	s.Time += time.Since(t0)
	for _, r := range []SatResult{rt, rf} {
		s.Queries++
		switch r {
		case Sat:
			s.NSat++
		case Unsat:
			s.NUnsat++
		default:
			s.NUnk++
		}
	}
	return rt, rf
}

func (s *Solver) readCheck() SatResult {
	if s.dead {
		return Unknown
	}
	// z3 does not always honour :timeout (some tactics do not poll it): a hard
	// watchdog kills the process; the query and the rest of the path are Unknown.
	proc := s.cmd.Process
	fired := false
	wd := time.AfterFunc(time.Duration(2*s.timeout+5000)*time.Millisecond, func() {
		fired = true
		proc.Kill()
	})
	defer wd.Stop()
	for {
		line, err := s.out.ReadString('\n')
		if err != nil {
			if fired {
				s.dead = true
				s.Watchdog++
				return Unknown
			}
			s.Errors = append(s.Errors, "solver died: "+err.Error())
			return Unknown
		}
		line = strings.TrimSpace(line)
		switch {
		case line == "sat":
			return Sat
		case line == "unsat":
			return Unsat
		case line == "unknown" || line == "timeout":
			return Unknown
		case line == "" || line == "success":
		case strings.Contains(line, "error"):
			s.Errors = append(s.Errors, line)
		default:
			// unsupported / warnings
			if strings.HasPrefix(line, "unsupported") {
				s.Errors = append(s.Errors, line)
			}
		}
	}
}

// Values returns the model value of each term (must follow a Sat Check with
// the same extra conjuncts still in scope: callers use CheckKeep for that).
func (s *Solver) Values(ts []*Term) ([]uint64, error) {
	if len(ts) == 0 {
		return nil, nil
	}
	names := make([]string, len(ts))
	for i, t := range ts {
		names[i] = s.name(t)
	}
	s.send("(get-value (" + strings.Join(names, " ") + "))")
	s.flush()
	// read balanced s-expression
	var sb strings.Builder
	depth, started := 0, false
	for {
		line, err := s.out.ReadString('\n')
		if err != nil {
			return nil, err
		}
		if strings.Contains(line, "(error") {
			s.Errors = append(s.Errors, strings.TrimSpace(line))
			return nil, fmt.Errorf("get-value: %s", line)
		}
		for _, c := range line {
			if c == '(' {
				depth++
				started = true
			} else if c == ')' {
				depth--
			}
		}
		sb.WriteString(line)
		if started && depth == 0 {
			break
		}
	}
	toks := tokenize(sb.String())
	// format: ( ( name value ) ( name value ) ... ) where value may be (_ bvN w)
	vals := make([]uint64, 0, len(ts))
	i := 1
	for i < len(toks) && toks[i] == "(" {
		i++ // (
		// name: may itself be an s-expr? names are atoms or literals
		if toks[i] == "(" { // skip s-expr name
			d := 0
			for {
				if toks[i] == "(" {
					d++
				} else if toks[i] == ")" {
					d--
				}
				i++
				if d == 0 {
					break
				}
			}
		} else {
			i++
		}
		var v uint64
		if toks[i] == "(" { // (_ bvN w)
			if toks[i+1] == "_" && strings.HasPrefix(toks[i+2], "bv") {
				v, _ = strconv.ParseUint(toks[i+2][2:], 10, 64)
			}
			for toks[i] != ")" {
				i++
			}
			i++
		} else {
			v = parseLit(toks[i])
			i++
		}
		vals = append(vals, v)
		i++ // )
	}
	if len(vals) != len(ts) {
		return nil, fmt.Errorf("get-value: parsed %d of %d values from %q", len(vals), len(ts), sb.String())
	}
	return vals, nil
}

func parseLit(tok string) uint64 {
	switch {
	case tok == "true":
		return 1
	case tok == "false":
		return 0
	case strings.HasPrefix(tok, "#x"):
		v, _ := strconv.ParseUint(tok[2:], 16, 64)
		return v
	case strings.HasPrefix(tok, "#b"):
		v, _ := strconv.ParseUint(tok[2:], 2, 64)
		return v
	}
	return 0
}

func tokenize(s string) []string {
	var toks []string
	cur := ""
	for _, c := range s {
		switch c {
		case '(', ')':
			if cur != "" {
				toks = append(toks, cur)
				cur = ""
			}
			toks = append(toks, string(c))
		case ' ', '\n', '\t', '\r':
			if cur != "" {
				toks = append(toks, cur)
				cur = ""
			}
		default:
			cur += string(c)
		}
	}
	if cur != "" {
		toks = append(toks, cur)
	}
	return toks
}

// CheckModel runs Check(extra...) and, when sat, returns the values of ts in
// that model. All definitions are emitted before the scope is pushed, so
// nothing the session remembers is lost by the pop.
func (s *Solver) CheckModel(ts []*Term, extra ...*Term) (SatResult, []uint64) {
	for _, e := range extra {
		if e.IsFalse() {
			return Unsat, nil
		}
	}
	var lits []string
	for _, e := range extra {
		if !e.IsTrue() {
			lits = append(lits, s.name(e))
		}
	}
	for _, t := range ts {
		s.name(t)
	}
	s.send("(push 1)")
	for _, l := range lits {
		s.send("(assert " + l + ")")
	}
	res := s.Check()
	var vals []uint64
	if res == Sat {
		v, err := s.Values(ts)
		if err != nil {
			s.Errors = append(s.Errors, err.Error())
			res = Unknown
		}
		vals = v
	}
	s.send("(pop 1)")
	return res, vals
}
