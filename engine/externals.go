package main

// Engine intrinsics: what go/ssa cannot show (assembly, runtime, reflection)
// and the sync primitives, which the engine schedules itself.

import (
	"math"
	"fmt"
	"go/types"
	"path/filepath"
	"strconv"
	"strings"

	"golang.org/x/tools/go/ssa"
)

type externalFn func(p *Path, th *Thread, fr *frame, args []Value) Value

type mutexState struct {
	locked  bool
	readers int
	owner   int
}

type wgState struct{ n int64 }

type onceState struct {
	state int // 0 fresh, 1 running, 2 done
}

type condState struct {
	waiters []*int
}

func (p *Path) mutex(ptr *Value) *mutexState {
	k := fmt.Sprintf("mu:%p", ptr)
	if p.ghost == nil {
		p.ghost = map[string]Value{}
	}
	if m, ok := p.ghost[k]; ok {
		return m.(*mutexState)
	}
	m := &mutexState{}
	p.ghost[k] = m
	return m
}

func ghostGet[T any](p *Path, kind string, ptr *Value, mk func() T) T {
	k := fmt.Sprintf("%s:%p", kind, ptr)
	if p.ghost == nil {
		p.ghost = map[string]Value{}
	}
	if m, ok := p.ghost[k]; ok {
		return m.(T)
	}
	m := mk()
	p.ghost[k] = m
	return m
}

func fatal(p *Path, msg string) {
	panic(targetPanic{v: p.runtimeErrorValue(msg), msg: "fatal error: " + msg})
}

func registerExternals(e *Engine) {
	x := e.externals

	// ---- sync.Mutex / RWMutex ----
	x["(*sync.Mutex).Lock"] = func(p *Path, th *Thread, fr *frame, a []Value) Value {
		m := p.mutex(a[0].(*Value))
		p.yield(th)
		p.block(th, func() bool { return !m.locked && m.readers == 0 })
		m.locked = true
		m.owner = th.id
		return nil
	}
	x["(*sync.Mutex).TryLock"] = func(p *Path, th *Thread, fr *frame, a []Value) Value {
		m := p.mutex(a[0].(*Value))
		p.yield(th)
		if m.locked {
			return FalseT
		}
		m.locked = true
		m.owner = th.id
		return TrueT
	}
	x["(*sync.Mutex).Unlock"] = func(p *Path, th *Thread, fr *frame, a []Value) Value {
		m := p.mutex(a[0].(*Value))
		if !m.locked {
			fatal(p, "sync: unlock of unlocked mutex")
		}
		m.locked = false
		return nil
	}
	x["(*sync.RWMutex).Lock"] = x["(*sync.Mutex).Lock"]
	x["(*sync.RWMutex).TryLock"] = func(p *Path, th *Thread, fr *frame, a []Value) Value {
		m := p.mutex(a[0].(*Value))
		p.yield(th)
		if m.locked || m.readers > 0 {
			return FalseT
		}
		m.locked = true
		return TrueT
	}
	x["(*sync.RWMutex).Unlock"] = x["(*sync.Mutex).Unlock"]
	x["(*sync.RWMutex).RLock"] = func(p *Path, th *Thread, fr *frame, a []Value) Value {
		m := p.mutex(a[0].(*Value))
		p.yield(th)
		p.block(th, func() bool { return !m.locked })
		m.readers++
		return nil
	}
	x["(*sync.RWMutex).TryRLock"] = func(p *Path, th *Thread, fr *frame, a []Value) Value {
		m := p.mutex(a[0].(*Value))
		p.yield(th)
		if m.locked {
			return FalseT
		}
		m.readers++
		return TrueT
	}
	x["(*sync.RWMutex).RUnlock"] = func(p *Path, th *Thread, fr *frame, a []Value) Value {
		m := p.mutex(a[0].(*Value))
		if m.readers <= 0 {
			fatal(p, "sync: RUnlock of unlocked RWMutex")
		}
		m.readers--
		return nil
	}
	x["(*sync.RWMutex).RLocker"] = nil
	delete(x, "(*sync.RWMutex).RLocker")

	// ---- sync.WaitGroup ----
	wg := func(p *Path, ptr *Value) *wgState {
		return ghostGet(p, "wg", ptr, func() *wgState { return &wgState{} })
	}
	x["(*sync.WaitGroup).Add"] = func(p *Path, th *Thread, fr *frame, a []Value) Value {
		w := wg(p, a[0].(*Value))
		p.yield(th)
		w.n += p.concInt(a[1], "WaitGroup.Add")
		if w.n < 0 {
			panic(targetPanic{v: Iface{T: types.Typ[types.String], V: "sync: negative WaitGroup counter"}, msg: "sync: negative WaitGroup counter"})
		}
		return nil
	}
	x["(*sync.WaitGroup).Done"] = func(p *Path, th *Thread, fr *frame, a []Value) Value {
		w := wg(p, a[0].(*Value))
		p.yield(th)
		w.n--
		if w.n < 0 {
			panic(targetPanic{v: Iface{T: types.Typ[types.String], V: "sync: negative WaitGroup counter"}, msg: "sync: negative WaitGroup counter"})
		}
		return nil
	}
	x["(*sync.WaitGroup).Wait"] = func(p *Path, th *Thread, fr *frame, a []Value) Value {
		w := wg(p, a[0].(*Value))
		p.yield(th)
		p.block(th, func() bool { return w.n == 0 })
		return nil
	}
	x["(*sync.WaitGroup).Go"] = func(p *Path, th *Thread, fr *frame, a []Value) Value {
		w := wg(p, a[0].(*Value))
		w.n++
		f := a[1]
		wrapper := &nativeFn{f: func(p *Path, th2 *Thread) {
			p.call(th2, nil, f, nil)
			w.n--
		}}
		p.newThread(wrapper, nil)
		p.yield(th)
		return nil
	}

	// ---- sync.Once ----
	x["(*sync.Once).Do"] = func(p *Path, th *Thread, fr *frame, a []Value) Value {
		o := ghostGet(p, "once", a[0].(*Value), func() *onceState { return &onceState{} })
		p.yield(th)
		switch o.state {
		case 2:
			return nil
		case 1:
			p.block(th, func() bool { return o.state == 2 })
			return nil
		}
		o.state = 1
		defer func() { o.state = 2 }()
		p.call(th, fr, a[1], nil)
		return nil
	}

	// ---- sync.Cond ----
	cond := func(p *Path, ptr *Value) *condState {
		return ghostGet(p, "cond", ptr, func() *condState { return &condState{} })
	}
	x["sync.NewCond"] = nil
	delete(x, "sync.NewCond")
	x["(*sync.Cond).Wait"] = func(p *Path, th *Thread, fr *frame, a []Value) Value {
		c := cond(p, a[0].(*Value))
		l := condLocker(p, a[0].(*Value), fr.fn)
		tok := new(int)
		c.waiters = append(c.waiters, tok)
		p.callMethod(th, fr, l, "Unlock")
		p.yield(th)
		p.block(th, func() bool { return *tok == 1 })
		p.callMethod(th, fr, l, "Lock")
		return nil
	}
	x["(*sync.Cond).Signal"] = func(p *Path, th *Thread, fr *frame, a []Value) Value {
		c := cond(p, a[0].(*Value))
		p.yield(th)
		if len(c.waiters) > 0 {
			// which waiter wakes is unspecified: fork
			k := p.choose(len(c.waiters))
			*c.waiters[k] = 1
			c.waiters = append(c.waiters[:k:k], c.waiters[k+1:]...)
		}
		return nil
	}
	x["(*sync.Cond).Broadcast"] = func(p *Path, th *Thread, fr *frame, a []Value) Value {
		c := cond(p, a[0].(*Value))
		p.yield(th)
		for _, w := range c.waiters {
			*w = 1
		}
		c.waiters = nil
		return nil
	}

	// ---- sync.Pool: Get = New(), Put = no-op; with spec "pool_reuse" a Put object
	// may (or may not) come back from a later Get: both are explored ----
	type poolState struct{ items []Value }
	x["(*sync.Pool).Get"] = func(p *Path, th *Thread, fr *frame, a []Value) Value {
		ptr := a[0].(*Value)
		if p.eng.poolReuse {
			ps := ghostGet(p, "pool", ptr, func() *poolState { return &poolState{} })
			if n := len(ps.items); n > 0 && p.choose(2) == 1 {
				it := ps.items[n-1]
				ps.items = ps.items[:n-1]
				return it
			}
		}
		st := (*ptr).(Struct)
		pt := deref(fr.fn.Params[0].Type()).Underlying().(*types.Struct)
		for i := 0; i < pt.NumFields(); i++ {
			if pt.Field(i).Name() == "New" {
				if isNilFunc(st[i]) {
					return Iface{}
				}
				return p.call(th, fr, st[i], nil)
			}
		}
		return Iface{}
	}
	x["(*sync.Pool).Put"] = func(p *Path, th *Thread, fr *frame, a []Value) Value {
		if p.eng.poolReuse {
			ps := ghostGet(p, "pool", a[0].(*Value), func() *poolState { return &poolState{} })
			ps.items = append(ps.items, a[1])
		}
		return nil
	}

	// ---- sync/atomic ----
	for _, ty := range []string{"Int32", "Int64", "Uint32", "Uint64", "Uintptr", "Pointer"} {
		ty := ty
		x["sync/atomic.Load"+ty] = func(p *Path, th *Thread, fr *frame, a []Value) Value {
			p.yield(th)
			return atomicPtr(p, fr, a[0])
		}
		x["sync/atomic.Store"+ty] = func(p *Path, th *Thread, fr *frame, a []Value) Value {
			p.yield(th)
			atomicPtr(p, fr, a[0])
			*(a[0].(*Value)) = a[1]
			return nil
		}
		x["sync/atomic.Swap"+ty] = func(p *Path, th *Thread, fr *frame, a []Value) Value {
			p.yield(th)
			old := atomicPtr(p, fr, a[0])
			*(a[0].(*Value)) = a[1]
			return old
		}
		x["sync/atomic.CompareAndSwap"+ty] = func(p *Path, th *Thread, fr *frame, a []Value) Value {
			p.yield(th)
			cur := atomicPtr(p, fr, a[0])
			var eq *Term
			if ct, ok := cur.(*Term); ok {
				eq = Eq(ct, a[1].(*Term))
			} else {
				cp, _ := cur.(*Value)
				op, _ := a[1].(*Value)
				eq = BoolT(cp == op)
			}
			if p.decide(eq) {
				*(a[0].(*Value)) = a[2]
				return TrueT
			}
			return FalseT
		}
		if ty != "Pointer" {
			x["sync/atomic.Add"+ty] = func(p *Path, th *Thread, fr *frame, a []Value) Value {
				p.yield(th)
				cur := atomicPtr(p, fr, a[0]).(*Term)
				n := Bin(OpAdd, cur, a[1].(*Term))
				*(a[0].(*Value)) = n
				return n
			}
			x["sync/atomic.And"+ty] = func(p *Path, th *Thread, fr *frame, a []Value) Value {
				p.yield(th)
				cur := atomicPtr(p, fr, a[0]).(*Term)
				*(a[0].(*Value)) = Bin(OpBAnd, cur, a[1].(*Term))
				return cur
			}
			x["sync/atomic.Or"+ty] = func(p *Path, th *Thread, fr *frame, a []Value) Value {
				p.yield(th)
				cur := atomicPtr(p, fr, a[0]).(*Term)
				*(a[0].(*Value)) = Bin(OpBOr, cur, a[1].(*Term))
				return cur
			}
		}
	}
	// atomic.Value: field 0 holds the interface value
	x["(*sync/atomic.Value).Load"] = func(p *Path, th *Thread, fr *frame, a []Value) Value {
		p.yield(th)
		st := (*a[0].(*Value)).(Struct)
		return st[0]
	}
	x["(*sync/atomic.Value).Store"] = func(p *Path, th *Thread, fr *frame, a []Value) Value {
		p.yield(th)
		st := (*a[0].(*Value)).(Struct)
		if a[1].(Iface).T == nil {
			panic(targetPanic{v: Iface{T: types.Typ[types.String], V: "sync/atomic: store of nil value into Value"}, msg: "sync/atomic: store of nil value into Value"})
		}
		st[0] = a[1]
		return nil
	}
	x["(*sync/atomic.Value).Swap"] = func(p *Path, th *Thread, fr *frame, a []Value) Value {
		p.yield(th)
		st := (*a[0].(*Value)).(Struct)
		old := st[0]
		st[0] = a[1]
		return old
	}
	x["(*sync/atomic.Value).CompareAndSwap"] = func(p *Path, th *Thread, fr *frame, a []Value) Value {
		p.yield(th)
		st := (*a[0].(*Value)).(Struct)
		cur := st[0].(Iface)
		old := a[1].(Iface)
		var eq *Term
		if cur.T == nil || old.T == nil {
			eq = BoolT(cur.T == nil && old.T == nil)
		} else {
			eq = eqTerm(types.NewInterfaceType(nil, nil), cur, old)
		}
		if p.decide(eq) {
			st[0] = a[2]
			return TrueT
		}
		return FalseT
	}

	// ---- runtime / time yields ----
	x["runtime.Gosched"] = func(p *Path, th *Thread, fr *frame, a []Value) Value { p.spinYield(th); return nil }
	x["time.Sleep"] = func(p *Path, th *Thread, fr *frame, a []Value) Value { p.spinYield(th); return nil }
	x["runtime.NumCPU"] = func(p *Path, th *Thread, fr *frame, a []Value) Value { return mkInt(4) }
	x["runtime.GOMAXPROCS"] = func(p *Path, th *Thread, fr *frame, a []Value) Value { return mkInt(4) }
	x["runtime.GC"] = func(p *Path, th *Thread, fr *frame, a []Value) Value { return nil }
	x["runtime.KeepAlive"] = func(p *Path, th *Thread, fr *frame, a []Value) Value { return nil }
	x["runtime.SetFinalizer"] = func(p *Path, th *Thread, fr *frame, a []Value) Value { return nil }
	x["runtime.Caller"] = func(p *Path, th *Thread, fr *frame, a []Value) Value {
		return Tuple{ConstT(64, 0), "verif.go", mkInt(1), TrueT}
	}
	// gRPC status errors: opaque non-nil errors (codes are not property-relevant)
	x["google.golang.org/grpc/status.Error"] = func(p *Path, th *Thread, fr *frame, a []Value) Value {
		msg, _ := a[1].(string)
		return p.eng.makeError(p, "rpc error: "+msg, nil)
	}
	x["google.golang.org/grpc/status.Code"] = func(p *Path, th *Thread, fr *frame, a []Value) Value {
		if a[0].(Iface).T == nil {
			return ConstT(32, 0)
		}
		return ConstT(32, 2) // codes.Unknown
	}
	x["google.golang.org/grpc/status.Errorf"] = func(p *Path, th *Thread, fr *frame, a []Value) Value {
		return p.eng.makeError(p, "rpc error", nil)
	}
	for _, n := range []string{"log.Printf", "log.Println", "log.Print"} {
		x[n] = func(p *Path, th *Thread, fr *frame, a []Value) Value { return nil }
	}
	// math/rand seeding (607 words of additive-lagged-Fibonacci state): skipped —
	// no kernel's property depends on the values of the pseudo random stream
	x["(*math/rand.rngSource).Seed"] = func(p *Path, th *Thread, fr *frame, a []Value) Value { return nil }
	// package flag: every flag keeps its default value
	flagVal := func(p *Path, th *Thread, fr *frame, a []Value) Value {
		cell := new(Value)
		*cell = a[1]
		return cell
	}
	for _, n := range []string{"flag.String", "flag.Int", "flag.Bool", "flag.Uint64", "flag.Int64", "flag.Duration", "flag.Uint", "flag.Float64"} {
		x[n] = flagVal
	}
	x["flag.Parse"] = func(p *Path, th *Thread, fr *frame, a []Value) Value { return nil }
	// concrete float helpers whose bodies are assembly stubs
	for n, f := range map[string]func(float64) float64{"math.Ceil": math.Ceil, "math.Floor": math.Floor, "math.Round": math.Round, "math.Trunc": math.Trunc, "math.Sqrt": math.Sqrt, "math.Abs": math.Abs, "math.Log": math.Log, "math.Log2": math.Log2, "math.Exp": math.Exp} {
		f := f
		x[n] = func(p *Path, th *Thread, fr *frame, a []Value) Value { return f(a[0].(float64)) }
	}
	x["math.Pow"] = func(p *Path, th *Thread, fr *frame, a []Value) Value { return math.Pow(a[0].(float64), a[1].(float64)) }
	// expvar: a fresh unpublished variable (the global registry is a sync.Map)
	for _, n := range []string{"Int", "Float", "String", "Map"} {
		n := n
		x["expvar.New"+n] = func(p *Path, th *Thread, fr *frame, a []Value) Value {
			pkg := p.eng.prog.ImportedPackage("expvar")
			cell := new(Value)
			*cell = zero(pkg.Type(n).Type())
			return cell
		}
	}
	// context deadlines / cancellation: never fire inside the engine (timeouts are
	// outside every claim); the returned cancel function is a no-op
	ctxNoop := func(p *Path, th *Thread, fr *frame, a []Value) Value {
		return Tuple{a[0], &nativeFn{f: func(p *Path, th *Thread) {}}}
	}
	x["context.WithTimeout"] = ctxNoop
	x["context.WithDeadline"] = ctxNoop
	x["context.WithCancel"] = ctxNoop
	x["runtime.Callers"] = func(p *Path, th *Thread, fr *frame, a []Value) Value { return mkInt(0) }
	x["github.com/pkg/errors.callers"] = func(p *Path, th *Thread, fr *frame, a []Value) Value { return (*Value)(nil) }
	x["runtime/debug.Stack"] = func(p *Path, th *Thread, fr *frame, a []Value) Value { return []Value{} }

	// ---- internal/bytealg (assembly) ----
	x["internal/bytealg.Compare"] = func(p *Path, th *Thread, fr *frame, a []Value) Value {
		return bytesCompare(sliceTerms(a[0]), sliceTerms(a[1]))
	}
	x["bytes.Compare"] = x["internal/bytealg.Compare"]
	x["internal/bytealg.CompareString"] = func(p *Path, th *Thread, fr *frame, a []Value) Value {
		return bytesCompare(strTerms(a[0]), strTerms(a[1]))
	}
	x["strings.Compare"] = x["internal/bytealg.CompareString"]
	x["internal/bytealg.Equal"] = func(p *Path, th *Thread, fr *frame, a []Value) Value {
		return bytesEqTerm(sliceTerms(a[0]), sliceTerms(a[1]))
	}
	x["bytes.Equal"] = x["internal/bytealg.Equal"]
	indexByte := func(p *Path, ts []*Term, c *Term) Value {
		// first index i with ts[i]==c, else -1 (ite chain, no fork)
		res := ConstT(64, ^uint64(0))
		for i := len(ts) - 1; i >= 0; i-- {
			res = Ite(Eq(ts[i], c), ConstT(64, uint64(i)), res)
		}
		return res
	}
	x["internal/bytealg.IndexByte"] = func(p *Path, th *Thread, fr *frame, a []Value) Value {
		return indexByte(p, sliceTerms(a[0]), a[1].(*Term))
	}
	x["internal/bytealg.IndexByteString"] = func(p *Path, th *Thread, fr *frame, a []Value) Value {
		return indexByte(p, strTerms(a[0]), a[1].(*Term))
	}
	x["bytes.IndexByte"] = x["internal/bytealg.IndexByte"]
	x["strings.IndexByte"] = x["internal/bytealg.IndexByteString"]
	x["internal/bytealg.Count"] = func(p *Path, th *Thread, fr *frame, a []Value) Value {
		res := ConstT(64, 0)
		for _, t := range sliceTerms(a[0]) {
			res = Bin(OpAdd, res, BoolToBV(Eq(t, a[1].(*Term)), 64))
		}
		return res
	}
	x["internal/bytealg.CountString"] = func(p *Path, th *Thread, fr *frame, a []Value) Value {
		res := ConstT(64, 0)
		for _, t := range strTerms(a[0]) {
			res = Bin(OpAdd, res, BoolToBV(Eq(t, a[1].(*Term)), 64))
		}
		return res
	}
	x["internal/bytealg.MakeNoZero"] = func(p *Path, th *Thread, fr *frame, a []Value) Value {
		n := p.concInt(a[0], "MakeNoZero")
		s := make([]Value, n)
		for i := range s {
			s[i] = mkByte(0)
		}
		return s
	}
	x["internal/bytealg.Index"] = func(p *Path, th *Thread, fr *frame, a []Value) Value {
		return symIndex(p, sliceTerms(a[0]), sliceTerms(a[1]))
	}
	x["internal/bytealg.IndexString"] = func(p *Path, th *Thread, fr *frame, a []Value) Value {
		return symIndex(p, strTerms(a[0]), strTerms(a[1]))
	}
	x["strings.Index"] = x["internal/bytealg.IndexString"]
	x["bytes.Index"] = x["internal/bytealg.Index"]
	x["internal/bytealg.LastIndexByte"] = func(p *Path, th *Thread, fr *frame, a []Value) Value {
		ts := sliceTerms(a[0])
		res := ConstT(64, ^uint64(0))
		for i := 0; i < len(ts); i++ {
			res = Ite(Eq(ts[i], a[1].(*Term)), ConstT(64, uint64(i)), res)
		}
		return res
	}
	x["internal/bytealg.LastIndexByteString"] = func(p *Path, th *Thread, fr *frame, a []Value) Value {
		ts := strTerms(a[0])
		res := ConstT(64, ^uint64(0))
		for i := 0; i < len(ts); i++ {
			res = Ite(Eq(ts[i], a[1].(*Term)), ConstT(64, uint64(i)), res)
		}
		return res
	}
	x["internal/stringslite.Index"] = x["internal/bytealg.IndexString"]
	x["internal/stringslite.IndexByte"] = x["internal/bytealg.IndexByteString"]

	// strings.TrimSpace on symbolic ASCII strings: fork per byte on the six ASCII
	// space characters (the std-lib version goes through a 256-entry table)
	x["strings.TrimSpace"] = func(p *Path, th *Thread, fr *frame, a []Value) Value {
		if s, ok := a[0].(string); ok {
			return strings.TrimSpace(s)
		}
		ts := strTerms(a[0])
		if p.anyHighByte(ts) {
			return p.runFunction(&frame{p: p, th: th, caller: fr.caller, fn: fr.fn}, fr.fn, a, nil)
		}
		isSpace := func(c *Term) bool {
			sp := Or(Eq(c, ConstT(8, ' ')), Eq(c, ConstT(8, '\t')), Eq(c, ConstT(8, '\n')), Eq(c, ConstT(8, '\v')), Eq(c, ConstT(8, '\f')), Eq(c, ConstT(8, '\r')))
			return p.decide(sp)
		}
		start, end := 0, len(ts)
		for start < end && isSpace(ts[start]) {
			start++
		}
		for end > start && isSpace(ts[end-1]) {
			end--
		}
		return mkStr(ts[start:end])
	}

	// unicode.IsSpace (the unicode tables are not initialised in the engine)
	x["unicode.IsSpace"] = func(p *Path, th *Thread, fr *frame, a []Value) Value {
		r := a[0].(*Term)
		eq := func(v uint64) *Term { return Eq(r, ConstT(32, v)) }
		rng := func(lo, hi uint64) *Term {
			return And(Cmp(OpUle, ConstT(32, lo), r), Cmp(OpUle, r, ConstT(32, hi)))
		}
		return Or(rng(9, 13), eq(0x20), eq(0x85), eq(0xA0), eq(0x1680), rng(0x2000, 0x200a), eq(0x2028), eq(0x2029), eq(0x202f), eq(0x205f), eq(0x3000))
	}
	// string cloning goes through unsafe.String(&b[0], n): strings are immutable
	// values in the engine, so a clone is the string itself
	for _, n := range []string{"internal/stringslite.Clone", "strings.Clone", "strconv.cloneString"} {
		x[n] = func(p *Path, th *Thread, fr *frame, a []Value) Value { return a[0] }
	}
	// strings.Fields on symbolic ASCII strings
	x["strings.Fields"] = func(p *Path, th *Thread, fr *frame, a []Value) Value {
		if s, ok := a[0].(string); ok {
			var out []Value
			for _, f := range strings.Fields(s) {
				out = append(out, f)
			}
			if out == nil {
				out = []Value{}
			}
			return out
		}
		ts := strTerms(a[0])
		if p.anyHighByte(ts) {
			// non-ASCII input: execute the real std-lib function
			return p.runFunction(&frame{p: p, th: th, caller: fr.caller, fn: fr.fn}, fr.fn, a, nil)
		}
		isSpace := func(c *Term) bool {
			sp := Or(Eq(c, ConstT(8, ' ')), Eq(c, ConstT(8, '\t')), Eq(c, ConstT(8, '\n')), Eq(c, ConstT(8, '\v')), Eq(c, ConstT(8, '\f')), Eq(c, ConstT(8, '\r')))
			return p.decide(sp)
		}
		out := []Value{}
		start := -1
		for i, c := range ts {
			if isSpace(c) {
				if start >= 0 {
					out = append(out, mkStr(ts[start:i]))
					start = -1
				}
			} else if start < 0 {
				start = i
			}
		}
		if start >= 0 {
			out = append(out, mkStr(ts[start:]))
		}
		return out
	}

	// strings.Builder uses unsafe to avoid a copy
	x["(*strings.Builder).String"] = func(p *Path, th *Thread, fr *frame, a []Value) Value {
		st := (*a[0].(*Value)).(Struct)
		for _, f := range st {
			if s, ok := f.([]Value); ok {
				return mkStr(sliceTerms(s))
			}
		}
		return ""
	}
	x["(*strings.Builder).copyCheck"] = func(p *Path, th *Thread, fr *frame, a []Value) Value { return nil }

	// ---- errors ----
	x["errors.Is"] = func(p *Path, th *Thread, fr *frame, a []Value) Value {
		return BoolT(p.errorsIs(th, fr, a[0].(Iface), a[1].(Iface), 0))
	}
	x["errors.As"] = func(p *Path, th *Thread, fr *frame, a []Value) Value {
		return BoolT(p.errorsAs(th, fr, a[0].(Iface), a[1].(Iface), 0))
	}

	// ---- fmt ----
	x["fmt.Errorf"] = func(p *Path, th *Thread, fr *frame, a []Value) Value {
		msg := p.nativeSprintf(th, fr, a[0], a[1].([]Value))
		var wrapped Value
		for _, arg := range a[1].([]Value) {
			it := arg.(Iface)
			if it.T != nil && types.Implements(it.T, errorInterface()) {
				wrapped = it
			}
		}
		if fs, ok := a[0].(string); !ok || !strings.Contains(fs, "%w") {
			wrapped = nil
		}
		return p.eng.makeError(p, msg, wrapped)
	}
	x["fmt.Sprintf"] = func(p *Path, th *Thread, fr *frame, a []Value) Value {
		return p.nativeSprintf(th, fr, a[0], a[1].([]Value))
	}
	x["fmt.Sprint"] = func(p *Path, th *Thread, fr *frame, a []Value) Value {
		return p.nativeSprint(th, fr, a[0].([]Value), "")
	}
	x["fmt.Sprintln"] = func(p *Path, th *Thread, fr *frame, a []Value) Value {
		return p.nativeSprint(th, fr, a[0].([]Value), "\n")
	}
	for _, n := range []string{"fmt.Printf", "fmt.Println", "fmt.Print", "fmt.Fprintln", "fmt.Fprint"} {
		x[n] = func(p *Path, th *Thread, fr *frame, a []Value) Value {
			return Tuple{mkInt(0), Iface{}}
		}
	}
	x["fmt.Fprintf"] = func(p *Path, th *Thread, fr *frame, a []Value) Value {
		// write the formatted text to the writer (bufio.Writer / bytes.Buffer in reply paths)
		s := p.nativeSprintf(th, fr, a[1], a[2].([]Value))
		w := a[0].(Iface)
		if w.T == nil {
			return Tuple{mkInt(0), Iface{}}
		}
		r := p.callMethod(th, fr, w, "Write", termsToSlice(strTerms(s)))
		return r
	}

	// ---- sort (reflect-based swapper) ----
	sortSlice := func(p *Path, th *Thread, fr *frame, a []Value) Value {
		it := a[0].(Iface)
		s, _ := it.V.([]Value)
		less := a[1]
		// insertion sort calling the real less closure (stable)
		for i := 1; i < len(s); i++ {
			for j := i; j > 0; j-- {
				r := p.call(th, fr, less, []Value{mkInt(int64(j)), mkInt(int64(j - 1))}).(*Term)
				if !p.decide(r) {
					break
				}
				s[j], s[j-1] = s[j-1], s[j]
			}
		}
		return nil
	}
	x["sort.Slice"] = sortSlice
	x["sort.SliceStable"] = sortSlice

	// ---- strconv on concrete operands: native; symbolic: interpreted from source ----
	x["strconv.Itoa"] = func(p *Path, th *Thread, fr *frame, a []Value) Value {
		t := a[0].(*Term)
		if t.IsConst() {
			return strconv.FormatInt(t.SVal(), 10)
		}
		return p.runFunction(&frame{p: p, th: th, caller: fr, fn: fr.fn}, fr.fn, a, nil)
	}

	// ---- path/filepath & os bits on concrete strings ----
	x["path/filepath.Join"] = func(p *Path, th *Thread, fr *frame, a []Value) Value {
		var parts []string
		for _, e := range a[0].([]Value) {
			s, ok := e.(string)
			if !ok {
				engErr("filepath.Join on symbolic string")
			}
			parts = append(parts, s)
		}
		return filepath.Join(parts...)
	}
	x["path/filepath.Base"] = func(p *Path, th *Thread, fr *frame, a []Value) Value {
		return filepath.Base(mustStr(a[0], "filepath.Base"))
	}
	x["path/filepath.Dir"] = func(p *Path, th *Thread, fr *frame, a []Value) Value {
		return filepath.Dir(mustStr(a[0], "filepath.Dir"))
	}
	x["path/filepath.Clean"] = func(p *Path, th *Thread, fr *frame, a []Value) Value {
		return filepath.Clean(mustStr(a[0], "filepath.Clean"))
	}
	x["path/filepath.Ext"] = func(p *Path, th *Thread, fr *frame, a []Value) Value {
		return filepath.Ext(mustStr(a[0], "filepath.Ext"))
	}
	x["path/filepath.Match"] = func(p *Path, th *Thread, fr *frame, a []Value) Value {
		ok, err := filepath.Match(mustStr(a[0], "Match"), mustStr(a[1], "Match"))
		if err != nil {
			return Tuple{BoolT(ok), p.eng.makeError(p, err.Error(), nil)}
		}
		return Tuple{BoolT(ok), Iface{}}
	}
	x["os.Getenv"] = func(p *Path, th *Thread, fr *frame, a []Value) Value { return "" }
	x["os.Getpid"] = func(p *Path, th *Thread, fr *frame, a []Value) Value { return mkInt(4242) }

	// ---- time ----
	x["time.Now"] = func(p *Path, th *Thread, fr *frame, a []Value) Value { return p.timeNow(fr) }
	x["time.runtimeNano"] = func(p *Path, th *Thread, fr *frame, a []Value) Value {
		return p.clockTick()
	}
	x["time.Since"] = func(p *Path, th *Thread, fr *frame, a []Value) Value { return ConstT(64, 1) }
	x["time.Until"] = func(p *Path, th *Thread, fr *frame, a []Value) Value { return ConstT(64, 1) }
}

// anyHighByte forks on "some byte is >= 0x80" (one decision for the whole string).
func (p *Path) anyHighByte(ts []*Term) bool {
	var hs []*Term
	for _, c := range ts {
		hs = append(hs, Cmp(OpUle, ConstT(8, 0x80), c))
	}
	return p.decide(Or(hs...))
}

func mustStr(v Value, what string) string {
	s, ok := v.(string)
	if !ok {
		engErr("%s on symbolic string", what)
	}
	return s
}

// nativeFn lets the engine start a thread on engine-side code.
type nativeFn struct {
	f func(p *Path, th *Thread)
}

func atomicPtr(p *Path, fr *frame, v Value) Value {
	ptr := v.(*Value)
	if ptr == nil {
		p.goPanic(fr, "invalid memory address or nil pointer dereference")
	}
	return *ptr
}

// spinYield is a pure yield used by spin loops: the spinning thread is
// descheduled in favour of another enabled thread (fairness assumption).
func (p *Path) spinYield(th *Thread) {
	if p.over {
		panic(pathEnd{"over"})
	}
	th.spins++
	if th.spins > p.eng.cfg.Unwind*4 {
		p.endPath(OutIncomplete, "spin budget exhausted (thread keeps yielding)")
	}
	others := p.enabled(th)
	if len(others) == 0 {
		p.sched = append(p.sched, th.id)
		return
	}
	// a spinning thread always gives way (not counted as a preemption)
	k := p.choose(len(others))
	p.sched = append(p.sched, others[k].id)
	p.switchTo(th, others[k])
}

func symIndex(p *Path, hay, needle []*Term) Value {
	n, m := len(hay), len(needle)
	res := ConstT(64, ^uint64(0))
	for i := n - m; i >= 0; i-- {
		res = Ite(bytesEqTerm(hay[i:i+m], needle), ConstT(64, uint64(i)), res)
	}
	return res
}

var errIface *types.Interface

func errorInterface() *types.Interface {
	if errIface == nil {
		errIface = types.Universe.Lookup("error").Type().Underlying().(*types.Interface)
	}
	return errIface
}

func (p *Path) callMethod(th *Thread, fr *frame, recv Iface, name string, args ...Value) Value {
	if recv.T == nil {
		p.goPanic(fr, "invalid memory address or nil pointer dereference (method on nil interface)")
	}
	ms := p.eng.prog.MethodSets.MethodSet(recv.T)
	for i := 0; i < ms.Len(); i++ {
		sel := ms.At(i)
		if sel.Obj().Name() == name {
			fn := p.eng.prog.MethodValue(sel)
			return p.call(th, fr, fn, append([]Value{recv.V}, args...))
		}
	}
	engErr("type %v has no method %s", recv.T, name)
	return nil
}

func (p *Path) hasMethod(t types.Type, name string) bool {
	ms := p.eng.prog.MethodSets.MethodSet(t)
	for i := 0; i < ms.Len(); i++ {
		if ms.At(i).Obj().Name() == name {
			return true
		}
	}
	return false
}

func condLocker(p *Path, ptr *Value, fn *ssa.Function) Iface {
	st := (*ptr).(Struct)
	pt := deref(fn.Params[0].Type()).Underlying().(*types.Struct)
	for i := 0; i < pt.NumFields(); i++ {
		if pt.Field(i).Name() == "L" {
			return st[i].(Iface)
		}
	}
	engErr("sync.Cond without L")
	return Iface{}
}

func (p *Path) errorsIs(th *Thread, fr *frame, err, target Iface, depth int) bool {
	if depth > 32 {
		engErr("errors.Is: chain too deep")
	}
	if err.T == nil || target.T == nil {
		return err.T == nil && target.T == nil
	}
	if types.Identical(err.T, target.T) && types.Comparable(err.T) {
		if p.decide(eqTerm(err.T, err.V, target.V)) {
			return true
		}
	}
	if p.hasMethodSig(err.T, "Is", 1) {
		r := p.callMethod(th, fr, err, "Is", target).(*Term)
		if p.decide(r) {
			return true
		}
	}
	if p.hasMethod(err.T, "Unwrap") {
		r := p.callMethod(th, fr, err, "Unwrap")
		switch r := r.(type) {
		case Iface:
			if r.T == nil {
				return false
			}
			return p.errorsIs(th, fr, r, target, depth+1)
		case []Value:
			for _, e := range r {
				if e.(Iface).T != nil && p.errorsIs(th, fr, e.(Iface), target, depth+1) {
					return true
				}
			}
		}
	}
	return false
}

func (p *Path) hasMethodSig(t types.Type, name string, nparams int) bool {
	ms := p.eng.prog.MethodSets.MethodSet(t)
	for i := 0; i < ms.Len(); i++ {
		if ms.At(i).Obj().Name() == name {
			sig := ms.At(i).Type().(*types.Signature)
			return sig.Params().Len() == nparams
		}
	}
	return false
}

func (p *Path) errorsAs(th *Thread, fr *frame, err, target Iface, depth int) bool {
	if depth > 32 {
		engErr("errors.As: chain too deep")
	}
	if target.T == nil {
		panic(targetPanic{v: Iface{T: types.Typ[types.String], V: "errors: target cannot be nil"}, msg: "errors: target cannot be nil"})
	}
	pt, ok := target.T.Underlying().(*types.Pointer)
	if !ok {
		engErr("errors.As target not a pointer")
	}
	elem := pt.Elem()
	if err.T == nil {
		return false
	}
	cell := target.V.(*Value)
	if it, isI := elem.Underlying().(*types.Interface); isI {
		if types.Implements(err.T, it) {
			*cell = err
			return true
		}
	} else if types.Identical(err.T, elem) {
		*cell = err.V
		return true
	}
	if p.hasMethod(err.T, "Unwrap") {
		r := p.callMethod(th, fr, err, "Unwrap")
		if ri, ok := r.(Iface); ok && ri.T != nil {
			return p.errorsAs(th, fr, ri, target, depth+1)
		}
	}
	return false
}

// nativeSprintf formats with the real fmt when every operand is concrete plain
// data; error operands are rendered through their Error method. A symbolic
// operand yields an opaque marker (messages are never property-relevant).
func (p *Path) nativeSprintf(th *Thread, fr *frame, format Value, args []Value) Value {
	fs, ok := format.(string)
	if !ok {
		return "<fmt:symbolic-format>"
	}
	nat := make([]any, len(args))
	for i, a := range args {
		nat[i] = p.toNative(th, fr, a, 0)
	}
	fs = strings.ReplaceAll(fs, "%w", "%v")
	return fmt.Sprintf(fs, nat...)
}

func (p *Path) nativeSprint(th *Thread, fr *frame, args []Value, end string) Value {
	nat := make([]any, len(args))
	for i, a := range args {
		nat[i] = p.toNative(th, fr, a, 0)
	}
	if end != "" {
		return fmt.Sprintln(nat...)
	}
	return fmt.Sprint(nat...)
}

type opaque string

func (o opaque) String() string { return string(o) }
func (o opaque) Format(f fmt.State, c rune) {
	fmt.Fprint(f, string(o))
}

func (p *Path) toNative(th *Thread, fr *frame, v Value, depth int) any {
	if depth > 3 {
		return opaque("…")
	}
	switch v := v.(type) {
	case Iface:
		if v.T == nil {
			return nil
		}
		if types.Implements(v.T, errorInterface()) {
			var s Value
			func() {
				defer func() {
					if r := recover(); r != nil {
						if _, ok := r.(targetPanic); ok {
							s = "<error>"
							return
						}
						panic(r)
					}
				}()
				s = p.callMethod(th, fr, v, "Error")
			}()
			if str, ok := s.(string); ok {
				return opaque(str)
			}
			return opaque("<sym-error>")
		}
		if pkgOpaqueType(p, v.T) {
			return opaque("<" + v.T.String() + ">")
		}
		if p.hasMethodSig(v.T, "String", 0) {
			s := p.callMethod(th, fr, v, "String")
			if str, ok := s.(string); ok {
				return opaque(str)
			}
			return opaque("<sym>")
		}
		return p.nativeOf(th, fr, v.T, v.V, depth)
	}
	return opaque(valString(v))
}

func (p *Path) nativeOf(th *Thread, fr *frame, t types.Type, v Value, depth int) any {
	switch x := v.(type) {
	case *Term:
		if !x.IsConst() {
			return opaque("<sym>")
		}
		b, ok := t.Underlying().(*types.Basic)
		if !ok {
			return x.Val
		}
		switch b.Kind() {
		case types.Bool:
			return x.Val != 0
		case types.Int:
			return int(x.SVal())
		case types.Int8:
			return int8(x.SVal())
		case types.Int16:
			return int16(x.SVal())
		case types.Int32:
			return int32(x.SVal())
		case types.Int64:
			return x.SVal()
		case types.Uint:
			return uint(x.Val)
		case types.Uint8:
			return uint8(x.Val)
		case types.Uint16:
			return uint16(x.Val)
		case types.Uint32:
			return uint32(x.Val)
		case types.Uint64:
			return x.Val
		case types.Uintptr:
			return uintptr(x.Val)
		}
		return x.Val
	case string:
		return x
	case *SymStr:
		return opaque("<symstr>")
	case float64:
		return x
	case float32:
		return x
	case []Value:
		if bs, ok := concreteBytes(x); ok {
			if st, ok := t.Underlying().(*types.Slice); ok {
				if eb, ok := st.Elem().Underlying().(*types.Basic); ok && eb.Kind() == types.Uint8 {
					return bs
				}
			}
		}
		return opaque(valString(x))
	}
	return opaque(valString(v))
}

// pkgOpaqueType reports whether t (or what it points to) is declared in a
// package whose code the engine does not interpret (e.g. generated protobuf
// messages: their String/Error methods go through reflection).
func pkgOpaqueType(p *Path, t types.Type) bool {
	if pt, ok := t.(*types.Pointer); ok {
		t = pt.Elem()
	}
	if n, ok := t.(*types.Named); ok && n.Obj() != nil && n.Obj().Pkg() != nil {
		return p.eng.opaquePkg(n.Obj().Pkg().Path())
	}
	return false
}
