package main

// Lemmas behind the engine's summaries, discharged by the solver at the start
// of every check run (bit-precise, no uninterpreted symbols):
//
//  crc-inj-state : s != s'  =>  step(s,b) != step(s',b)
//  crc-inj-byte  : b != b'  =>  step(s,b) != step(s,b')
//      (step = one byte of CRC-32C in the representation used by
//       hash/crc32.Update; these justify the pairwise constraints added for the
//       uninterpreted crc32c_step in std.go)
//  sov-summary   : (bits.Len64(x|1)+6)/7 == 1 + #{k in 1..9 : x >= 2^(7k)}
//      (the summary used for protobuf's sovRaft size helper)
//
// The CRC step is additionally compared with hash/crc32 on concrete points.

import (
	"fmt"
	"hash/crc32"
	"time"
)

type LemmaResult struct {
	Name   string  `json:"name"`
	Result string  `json:"result"`
	Secs   float64 `json:"seconds"`
}

// crcStepTerm is the bit-precise CRC-32C step in Update's external
// representation: step'(c,b) = ^raw(^c, b).
func crcStepTerm(c, b *Term) *Term {
	x := Bin(OpBXor, BNot(c), ZExt(b, 32))
	poly := ConstT(32, 0x82F63B78)
	for i := 0; i < 8; i++ {
		lsb := Eq(Extract(x, 0, 0), ConstT(1, 1))
		sh := Bin(OpLShr, x, ConstT(32, 1))
		x = Ite(lsb, Bin(OpBXor, sh, poly), sh)
	}
	return BNot(x)
}

func sovSummary(x *Term) *Term {
	n := ConstT(64, 1)
	for k := 1; k <= 9; k++ {
		n = Bin(OpAdd, n, BoolToBV(Cmp(OpUle, ConstT(64, uint64(1)<<uint(7*k)), x), 64))
	}
	return n
}

func proveLemmas() ([]LemmaResult, error) {
	sol, err := NewSolver("z3", 60_000)
	if err != nil {
		return nil, err
	}
	defer sol.Close()
	var out []LemmaResult
	run := func(name string, negated *Term) {
		sol.Reset()
		t0 := time.Now()
		r := sol.Check(negated)
		res := "proved"
		if r == Sat {
			res = "REFUTED"
		} else if r == Unknown {
			res = "unknown"
		}
		out = append(out, LemmaResult{name, res, time.Since(t0).Seconds()})
	}
	s, s2 := VarT("s", 32), VarT("s2", 32)
	b, b2 := VarT("b", 8), VarT("b2", 8)
	run("crc-inj-state", And(Not(Eq(s, s2)), Eq(crcStepTerm(s, b), crcStepTerm(s2, b))))
	run("crc-inj-byte", And(Not(Eq(b, b2)), Eq(crcStepTerm(s, b), crcStepTerm(s, b2))))
	x := VarT("x", 64)
	real := Bin(OpUDiv, Bin(OpAdd, bitsLen(Bin(OpBOr, x, ConstT(64, 1))), ConstT(64, 6)), ConstT(64, 7))
	run("sov-summary", Not(Eq(real, sovSummary(x))))
	// concrete comparison of the bit-precise step with hash/crc32
	m := &Model{Vars: map[string]uint64{}}
	bad := 0
	for _, st := range []uint32{0, 1, 0xffffffff, 0xdeadbeef, 0x12345678, 0x80000000} {
		for by := 0; by < 256; by++ {
			m.Vars["s"], m.Vars["b"] = uint64(st), uint64(by)
			if uint32(m.Eval(crcStepTerm(s, b))) != crc32.Update(st, castagnoli, []byte{byte(by)}) {
				bad++
			}
		}
	}
	res := "agree on 1536 points"
	if bad > 0 {
		res = fmt.Sprintf("REFUTED on %d points", bad)
	}
	out = append(out, LemmaResult{"crc-step-vs-hash/crc32", res, 0})
	if len(sol.Errors) > 0 {
		return out, fmt.Errorf("solver errors while proving lemmas: %v", sol.Errors)
	}
	for _, l := range out {
		if l.Result != "proved" && l.Name != "crc-step-vs-hash/crc32" || (l.Name == "crc-step-vs-hash/crc32" && bad > 0) {
			return out, fmt.Errorf("lemma %s: %s", l.Name, l.Result)
		}
	}
	return out, nil
}

func init() {
	extraExternals = append(extraExternals, func(e *Engine) {
		e.externals["go.etcd.io/raft/v3/raftpb.sovRaft"] = func(p *Path, th *Thread, fr *frame, a []Value) Value {
			return sovSummary(a[0].(*Term))
		}
	})
}
