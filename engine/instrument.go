package main

// Source instrumentation for the native replay of concurrency
// counterexamples: the kernel's file is rewritten so that every visible
// operation is preceded by verifsym.Point() (one scheduling event) and mutex
// locks become cooperative. Only used through `go test -overlay`; /repo is
// never modified.

import (
	"bytes"
	"fmt"
	"go/ast"
	"go/format"
	"go/token"
	"go/types"
	"path/filepath"
	"strings"

	"golang.org/x/tools/go/ast/astutil"
	"golang.org/x/tools/go/packages"
)

func findSyntax(pkgs []*packages.Package, absPath string) (*packages.Package, *ast.File) {
	var rp *packages.Package
	var rf *ast.File
	packages.Visit(pkgs, nil, func(p *packages.Package) {
		for i, f := range p.CompiledGoFiles {
			if f == absPath && i < len(p.Syntax) {
				rp, rf = p, p.Syntax[i]
			}
		}
	})
	return rp, rf
}

// visibleKind classifies a call: "" (not visible), "point" (atomic op etc.),
// "lock", "rlock".
// instrumentFS: calls through the vfs.FS / vfs.File interfaces (except Read/Write,
// which also happen inside std-lib helpers that cannot be instrumented) and
// syscall.Flock are scheduling points too (spec.json "instrument_fs").
var instrumentFS bool

func visibleKind(info *types.Info, call *ast.CallExpr) string {
	sel, ok := call.Fun.(*ast.SelectorExpr)
	if !ok {
		return ""
	}
	fn, ok := info.Uses[sel.Sel].(*types.Func)
	if !ok || fn.Pkg() == nil {
		return ""
	}
	full := fn.FullName()
	if instrumentFS {
		if full == "syscall.Flock" {
			return "point"
		}
		recvIsVFS := false
		if selc, ok := info.Selections[sel]; ok {
			rs := types.TypeString(selc.Recv(), nil)
			recvIsVFS = rs == nokv+"/vfs.FS" || rs == nokv+"/vfs.File"
		}
		if recvIsVFS || strings.HasPrefix(full, "("+nokv+"/vfs.FS).") || strings.HasPrefix(full, "("+nokv+"/vfs.File).") {
			switch fn.Name() {
			case "Read", "Write", "ReadAt", "WriteAt", "Name", "Seek":
				return ""
			}
			return "point"
		}
	}
	switch fn.Pkg().Path() {
	case "sync/atomic":
		return "point"
	case "sync":
		switch {
		case strings.HasSuffix(full, "Mutex).Lock"):
			return "lock"
		case strings.HasSuffix(full, "RWMutex).RLock"):
			return "rlock"
		case strings.HasSuffix(full, "WaitGroup).Add"), strings.HasSuffix(full, "WaitGroup).Done"),
			strings.HasSuffix(full, "Mutex).TryLock"), strings.HasSuffix(full, "RWMutex).TryRLock"):
			return "point"
		}
	case "runtime":
		if fn.Name() == "Gosched" {
			return "point"
		}
	case "time":
		if fn.Name() == "Sleep" {
			return "point"
		}
	}
	return ""
}

func instrumentFile(pkgs []*packages.Package, rel string) ([]byte, error) {
	abs := filepath.Join(repoDir, rel)
	pkg, file := findSyntax(pkgs, abs)
	if file == nil {
		return nil, fmt.Errorf("instrument: %s not among the loaded files", rel)
	}
	info := pkg.TypesInfo
	symCall := func(name string, args ...ast.Expr) *ast.CallExpr {
		return &ast.CallExpr{Fun: &ast.SelectorExpr{X: ast.NewIdent("verifsym"), Sel: ast.NewIdent(name)}, Args: args}
	}
	n := 0
	// visible calls without exactly one result cannot be wrapped in an expression:
	// a Point() statement goes in front of the nearest enclosing statement that
	// sits in a statement list
	needPoint := map[ast.Stmt]int{}
	var stack []ast.Node
	ast.Inspect(file, func(nd ast.Node) bool {
		if nd == nil {
			stack = stack[:len(stack)-1]
			return true
		}
		stack = append(stack, nd)
		call, ok := nd.(*ast.CallExpr)
		if !ok || visibleKind(info, call) != "point" {
			return true
		}
		if sig, _ := info.TypeOf(call.Fun).(*types.Signature); sig == nil || sig.Results().Len() == 1 {
			return true
		}
		for i := len(stack) - 2; i >= 1; i-- {
			st, isStmt := stack[i].(ast.Stmt)
			if !isStmt {
				continue
			}
			switch stack[i-1].(type) {
			case *ast.BlockStmt, *ast.CaseClause, *ast.CommClause:
				needPoint[st]++
				return true
			}
		}
		return true
	})
	out := astutil.Apply(file, nil, func(c *astutil.Cursor) bool {
		if st, ok := c.Node().(ast.Stmt); ok && needPoint[st] > 0 && c.Index() >= 0 {
			for k := 0; k < needPoint[st]; k++ {
				n++
				c.InsertBefore(&ast.ExprStmt{X: symCall("Point")})
			}
			delete(needPoint, st)
		}
		call, ok := c.Node().(*ast.CallExpr)
		if !ok {
			return true
		}
		switch kind := visibleKind(info, call); kind {
		case "lock", "rlock":
			n++
			sel := call.Fun.(*ast.SelectorExpr)
			recv := sel.X
			var arg ast.Expr = recv
			if tv, ok := info.Types[recv]; ok {
				if _, isPtr := tv.Type.Underlying().(*types.Pointer); !isPtr {
					arg = &ast.UnaryExpr{Op: token.AND, X: recv}
				}
			}
			name := "Lock"
			if kind == "rlock" {
				name = "RLock"
			}
			c.Replace(symCall(name, arg))
		case "point":
			if sig, _ := info.TypeOf(call.Fun).(*types.Signature); sig != nil && sig.Results().Len() == 1 {
				n++
				c.Replace(symCall("Seq", symCall("Point"), call))
			}
		}
		return true
	})
	f := out.(*ast.File)
	if n == 0 {
		var buf bytes.Buffer
		if err := format.Node(&buf, pkg.Fset, f); err != nil {
			return nil, err
		}
		return buf.Bytes(), nil
	}
	astutil.AddNamedImport(pkg.Fset, f, "verifsym", nokv+"/internal/verifsym")
	var buf bytes.Buffer
	// the file must carry no //go:build line that excludes it; keep as is
	if err := format.Node(&buf, pkg.Fset, f); err != nil {
		return nil, err
	}
	return buf.Bytes(), nil
}
