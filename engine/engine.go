package main

import (
	"encoding/json"
	"fmt"
	"go/types"
	"os"
	"sort"
	"strings"
	"sync"
	"time"

	"golang.org/x/tools/go/ssa"
)

type AssertStat struct {
	Evaluated int `json:"evaluated"`
	Held      int `json:"held"`
	Trivial   int `json:"trivially_true"`
}

type Engine struct {
	prog               *ssa.Program
	cfg                Config
	externals          map[string]externalFn
	replace            map[string]*ssa.Function // real function -> Go-written stub
	noCRCLemmas        bool
	pkgInitFix         map[string]func(p *Path, pkg *ssa.Package)
	opaque             map[string]bool
	sizes              types.Sizes
	runtimeErrorString types.Type
	mapOrderForks      bool
	poolReuse          bool
	tier               int
	solverKind         string

	mu             sync.Mutex
	paths          map[Outcome]int
	incomplete     map[string]int
	engineErrors   []string
	violations     []*Violation
	seenViol       map[string]bool
	asserts        map[string]*AssertStat
	reached        map[string]int
	unknownBranch  int
	inconclusive   []string
	queries        int
	nsat, nunsat   int
	nunk           int
	solverTime     time.Duration
	steps          int64
	maxUnwind      int
	maxDepthSeen   int
	funcsEncoded   map[string]bool
	samples        []string
	observations   map[string]int
	totalPaths     int
	stop           bool
	deadline       time.Time
	pathSamples    []PathSample
	solverErrors   []string
	cuts           map[string]int
}

type PathSample struct {
	Decisions int      `json:"decisions"`
	Outcome   string   `json:"outcome"`
	PC        []string `json:"path_condition"`
	Inputs    []string `json:"inputs"`
}

func NewEngine(prog *ssa.Program, cfg Config) *Engine {
	e := &Engine{
		prog:         prog,
		cfg:          cfg,
		externals:    map[string]externalFn{},
		replace:      map[string]*ssa.Function{},
		pkgInitFix:   map[string]func(p *Path, pkg *ssa.Package){},
		opaque:       map[string]bool{},
		sizes:        types.SizesFor("gc", "amd64"),
		solverKind:   "z3",
		paths:        map[Outcome]int{},
		incomplete:   map[string]int{},
		seenViol:     map[string]bool{},
		asserts:      map[string]*AssertStat{},
		reached:      map[string]int{},
		funcsEncoded: map[string]bool{},
		observations: map[string]int{},
	}
	if rt := prog.ImportedPackage("runtime"); rt != nil {
		if t := rt.Type("errorString"); t != nil {
			e.runtimeErrorString = t.Type()
		}
	}
	registerExternals(e)
	registerSym(e)
	registerStd(e)
	registerBits(e)
	e.opaque["internal/oserror"] = false
	e.opaque[nokv+"/pb"] = true // generated protobuf registration (reflection): never needed by a kernel
	e.opaque["unicode/utf8"] = false
	e.opaque["internal/bytealg"] = true
	// package os: only the sentinel errors are needed (the rest of its
	// initialisation needs the runtime); they alias io/fs's, as in the real init
	e.pkgInitFix["os"] = func(p *Path, pkg *ssa.Package) {
		fsPkg := p.eng.prog.ImportedPackage("io/fs")
		if fsPkg == nil {
			return
		}
		for _, n := range []string{"ErrInvalid", "ErrPermission", "ErrExist", "ErrNotExist", "ErrClosed"} {
			src, _ := fsPkg.Members[n].(*ssa.Global)
			dst, _ := pkg.Members[n].(*ssa.Global)
			if src == nil || dst == nil {
				continue
			}
			*p.globals[dst] = *p.global(src)
		}
		if g, ok := pkg.Members["ErrProcessDone"].(*ssa.Global); ok {
			*p.globals[g] = p.eng.makeError(p, "os: process already finished", nil)
		}
	}
	for _, f := range extraExternals {
		f(e)
	}
	return e
}

var extraExternals []func(e *Engine)

func (e *Engine) resetStats() {
	e.paths = map[Outcome]int{}
	e.incomplete = map[string]int{}
	e.engineErrors = nil
	e.violations = nil
	e.seenViol = map[string]bool{}
	e.asserts = map[string]*AssertStat{}
	e.reached = map[string]int{}
	e.unknownBranch = 0
	e.inconclusive = nil
	e.queries, e.nsat, e.nunsat, e.nunk = 0, 0, 0, 0
	e.solverTime = 0
	e.steps = 0
	e.maxUnwind = 0
	e.funcsEncoded = map[string]bool{}
	e.observations = map[string]int{}
	e.totalPaths = 0
	e.stop = false
	e.pathSamples = nil
	e.solverErrors = nil
}

var opaquePrefixes = []string{
	"runtime", "os", "syscall", "time", "reflect", "internal/", "unicode", "sync", "net", "crypto", "math/rand",
	"hash/crc32", "log", "expvar", "testing", "flag", "encoding/json", "google.golang.org/", "golang.org/x/",
	"github.com/prometheus", "go.etcd.io/etcd/client", "html", "text/template", "mime", "compress", "os/signal",
	"github.com/pkg/errors", "github.com/cespare/xxhash", "path/filepath", "io/ioutil", "embed", "regexp", "vendor/",
	"github.com/gogo/protobuf", "github.com/golang/protobuf", "go.uber.org", "bufio_never",
}

func (e *Engine) opaquePkg(path string) bool {
	if v, ok := e.opaque[path]; ok {
		return v
	}
	for _, pre := range opaquePrefixes {
		if path == pre || strings.HasPrefix(path, pre+"/") || (strings.HasSuffix(pre, "/") && strings.HasPrefix(path, pre)) {
			return true
		}
	}
	return false
}

func (e *Engine) noteCut(s string) {
	e.mu.Lock()
	if e.cuts == nil {
		e.cuts = map[string]int{}
	}
	e.cuts[s]++
	e.mu.Unlock()
}

func (e *Engine) noteUnknownBranch() {
	e.mu.Lock()
	e.unknownBranch++
	e.mu.Unlock()
}

func (e *Engine) noteInconclusive(s string) {
	e.mu.Lock()
	if len(e.inconclusive) < 20 {
		e.inconclusive = append(e.inconclusive, s)
	}
	e.mu.Unlock()
}

func (e *Engine) noteAssert(name string, held, trivial bool) {
	e.mu.Lock()
	st := e.asserts[name]
	if st == nil {
		st = &AssertStat{}
		e.asserts[name] = st
	}
	st.Evaluated++
	if held {
		st.Held++
	}
	if trivial {
		st.Trivial++
	}
	e.mu.Unlock()
}

func (e *Engine) wantViolation(assert, finding string) bool {
	e.mu.Lock()
	defer e.mu.Unlock()
	return !e.seenViol[assert+"|"+finding]
}

func (e *Engine) noteViolation(v *Violation) {
	e.mu.Lock()
	defer e.mu.Unlock()
	k := v.Assert + "|" + v.Finding
	if e.seenViol[k] {
		return
	}
	e.seenViol[k] = true
	e.violations = append(e.violations, v)
}

// ---- exploration ----

type work struct {
	prefix []Dec
}

func (e *Engine) Explore(entry *ssa.Function, timeout time.Duration) {
	e.deadline = time.Now().Add(timeout)
	var mu sync.Mutex
	cond := sync.NewCond(&mu)
	stack := []work{{}}
	single := false
	if f := os.Getenv("GOSYM_PREFIX"); f != "" {
		// debugging aid: run exactly the path of a recorded counterexample
		if data, err := os.ReadFile(f); err == nil {
			var obj struct {
				Decisions []Dec `json:"decisions"`
			}
			if json.Unmarshal(data, &obj) == nil {
				stack = []work{{prefix: obj.Decisions}}
				single = true
			}
		}
	}
	active := 0
	var wg sync.WaitGroup
	for w := 0; w < e.cfg.Workers; w++ {
		wg.Add(1)
		go func(w int) {
			defer wg.Done()
			sol, err := NewSolver(e.solverKind, e.cfg.TimeoutMs)
			if err != nil {
				e.mu.Lock()
				e.engineErrors = append(e.engineErrors, "solver start: "+err.Error())
				e.mu.Unlock()
				return
			}
			defer sol.Close()
			if os.Getenv("GOSYM_SMTLOG") != "" && w == 0 {
				f, _ := os.Create(os.Getenv("GOSYM_SMTLOG"))
				sol.logW = f
			}
			for {
				mu.Lock()
				for len(stack) == 0 && active > 0 {
					cond.Wait()
				}
				if len(stack) == 0 && active == 0 {
					mu.Unlock()
					cond.Broadcast()
					break
				}
				wk := stack[len(stack)-1]
				stack = stack[:len(stack)-1]
				active++
				mu.Unlock()

				alts := e.runPath(sol, entry, wk.prefix)
				if single {
					alts = nil
				}

				mu.Lock()
				active--
				e.mu.Lock()
				stop := e.stop
				if e.totalPaths >= e.cfg.MaxPaths && !stop {
					e.stop = true
					e.incomplete["path limit"]++
					stop = true
				}
				if time.Now().After(e.deadline) && !stop {
					e.stop = true
					e.incomplete["wall-clock limit"]++
					stop = true
				}
				e.mu.Unlock()
				if stop {
					stack = nil
				} else {
					for _, a := range alts {
						stack = append(stack, work{a})
					}
				}
				mu.Unlock()
				cond.Broadcast()
			}
			e.mu.Lock()
			e.queries += sol.Queries
			e.nsat += sol.NSat
			e.nunsat += sol.NUnsat
			e.nunk += sol.NUnk
			e.solverTime += sol.Time
			for _, er := range sol.Errors {
				if len(e.solverErrors) < 10 {
					e.solverErrors = append(e.solverErrors, er)
				}
			}
			e.mu.Unlock()
		}(w)
	}
	wg.Wait()
}

func (e *Engine) runPath(sol *Solver, entry *ssa.Function, prefix []Dec) [][]Dec {
	p := &Path{
		eng:         e,
		sol:         sol,
		prefix:      prefix,
		globals:     map[*ssa.Global]*Value{},
		inited:      map[*ssa.Package]bool{},
		inputSet:    map[string]*Term{},
		nameCnt:     map[string]int{},
		byteVars:    map[string][]*Term{},
		doneCh:      make(chan struct{}),
		allocBudget: -1,
	}
	th := p.newThread(entry, nil)
	p.cur = th
	th.resume <- struct{}{}
	<-p.doneCh

	e.mu.Lock()
	defer e.mu.Unlock()
	e.totalPaths++
	e.paths[p.outcome]++
	e.steps += p.steps
	if p.maxUnwind > e.maxUnwind {
		e.maxUnwind = p.maxUnwind
	}
	switch p.outcome {
	case OutIncomplete:
		e.incomplete[p.reason]++
	case OutEngineError:
		if len(e.engineErrors) < 5 {
			e.engineErrors = append(e.engineErrors, p.reason)
		}
		e.stop = true
	}
	if len(e.pathSamples) < 4 && (p.outcome == OutComplete) && len(p.pc) > 0 {
		ps := PathSample{Decisions: len(p.trace), Outcome: p.outcome.String()}
		for i, c := range p.pc {
			if i >= 6 {
				ps.PC = append(ps.PC, "…")
				break
			}
			s := c.String()
			if len(s) > 200 {
				s = s[:200] + "…"
			}
			ps.PC = append(ps.PC, s)
		}
		for i, in := range p.inputs {
			if i >= 12 {
				break
			}
			ps.Inputs = append(ps.Inputs, fmt.Sprintf("%s:bv%d", in.Name, in.W))
		}
		e.pathSamples = append(e.pathSamples, ps)
	}
	for _, o := range p.observes {
		e.observations[o]++
	}
	return p.alts
}

func (e *Engine) noteReached(name string) {
	e.mu.Lock()
	e.reached[name]++
	e.mu.Unlock()
}

func (e *Engine) noteFunc(name string) {
	e.mu.Lock()
	e.funcsEncoded[name] = true
	e.mu.Unlock()
}

func sortedKeys[V any](m map[string]V) []string {
	ks := make([]string, 0, len(m))
	for k := range m {
		ks = append(ks, k)
	}
	sort.Strings(ks)
	return ks
}

// makeError builds an error value of the real dynamic types *errors.errorString
// or *fmt.wrapError so that Error/Unwrap are the interpreted std-lib methods.
func (e *Engine) makeError(p *Path, msg Value, wrapped Value) Value {
	if wrapped != nil {
		if fp := e.prog.ImportedPackage("fmt"); fp != nil {
			if t := fp.Type("wrapError"); t != nil {
				var cell Value = Struct{msg, wrapped}
				return Iface{T: types.NewPointer(t.Type()), V: &cell}
			}
		}
	}
	ep := e.prog.ImportedPackage("errors")
	if ep == nil {
		engErr("package errors not loaded")
	}
	t := ep.Type("errorString")
	var cell Value = Struct{msg}
	return Iface{T: types.NewPointer(t.Type()), V: &cell}
}

// ---- clock ----

func (p *Path) clockTick() *Term {
	if p.ghost == nil {
		p.ghost = map[string]Value{}
	}
	n, _ := p.ghost["clock"].(int64)
	n++
	p.ghost["clock"] = n
	return ConstT(64, uint64(1_800_000_000_000_000_000+n*1_000_000))
}

func (p *Path) timeNow(fr *frame) Value {
	if h, ok := p.ghost["clockfn"]; ok {
		// harness-installed clock: func() int64 (unix nanoseconds)
		ns := p.call(fr.th, fr, h, nil).(*Term)
		return timeFromUnixNano(ns)
	}
	return timeFromUnixNano(p.clockTick())
}

func timeFromUnixNano(ns *Term) Value {
	// time.Time{wall: nsec (no monotonic), ext: seconds since year 1, loc: nil(UTC)}
	billion := ConstT(64, 1_000_000_000)
	sec := Bin(OpSDiv, ns, billion)
	nsec := Bin(OpSRem, ns, billion)
	ext := Bin(OpAdd, sec, ConstT(64, 62135596800))
	return Struct{nsec, ext, (*Value)(nil)}
}
