package main

// Harness-side intrinsics: the body-less functions of package verifsym.

import (
	"fmt"
	"go/types"
	"strings"
)

var symFns = map[string]externalFn{}

func symName(v Value) string {
	s, ok := v.(string)
	if !ok {
		engErr("verifsym: name must be a constant string")
	}
	return s
}

func registerSym(e *Engine) {
	s := symFns
	fresh := func(w int) externalFn {
		return func(p *Path, th *Thread, fr *frame, a []Value) Value {
			return p.newVar(symName(a[0]), w)
		}
	}
	s["U8"] = fresh(8)
	s["U16"] = fresh(16)
	s["U32"] = fresh(32)
	s["U64"] = fresh(64)
	s["I64"] = fresh(64)
	s["I32"] = fresh(32)
	s["Int64"] = fresh(64)
	s["Bool"] = func(p *Path, th *Thread, fr *frame, a []Value) Value {
		v := p.newVar(symName(a[0]), 8)
		p.addPC(Cmp(OpUle, v, ConstT(8, 1)))
		return Eq(v, ConstT(8, 1))
	}
	// Int(name, lo, hi): forks one path per value (a concrete int on each path)
	s["Int"] = func(p *Path, th *Thread, fr *frame, a []Value) Value {
		lo := p.concInt(a[1], "Int lo")
		hi := p.concInt(a[2], "Int hi")
		if hi < lo {
			p.endPath(OutInfeasible, "empty Int range")
		}
		k := p.choose(int(hi - lo + 1))
		v := lo + int64(k)
		// record as an input so that the replay sees it
		name := sanitize(symName(a[0]))
		in := p.newVar(name, 64)
		p.addPC(Eq(in, ConstT(64, uint64(v))))
		return mkInt(v)
	}
	// SymInt(name, lo, hi): a symbolic int constrained to [lo,hi] (no fork)
	s["SymInt"] = func(p *Path, th *Thread, fr *frame, a []Value) Value {
		lo := p.concInt(a[1], "SymInt lo")
		hi := p.concInt(a[2], "SymInt hi")
		v := p.newVar(symName(a[0]), 64)
		p.addPC(And(Cmp(OpSle, ConstT(64, uint64(lo)), v), Cmp(OpSle, v, ConstT(64, uint64(hi)))))
		return v
	}
	s["Bytes"] = func(p *Path, th *Thread, fr *frame, a []Value) Value {
		name := sanitize(symName(a[0]))
		n := p.concInt(a[1], "Bytes n")
		k := p.nameCnt["bytes:"+name]
		p.nameCnt["bytes:"+name] = k + 1
		if k > 0 {
			name = fmt.Sprintf("%s.%d", name, k)
		}
		out := make([]Value, n)
		ts := make([]*Term, n)
		for i := range out {
			t := p.newVar(fmt.Sprintf("%s_%d", name, i), 8)
			out[i] = t
			ts[i] = t
		}
		p.byteVars[name] = ts
		return out
	}
	s["Assume"] = func(p *Path, th *Thread, fr *frame, a []Value) Value {
		p.assume(a[0].(*Term))
		return nil
	}
	s["Assert"] = func(p *Path, th *Thread, fr *frame, a []Value) Value {
		where := ""
		if fr.caller != nil {
			where = posOf(p, fr.caller.curInstr)
		}
		p.assertTerm(a[0].(*Term), symName(a[1]), where)
		return nil
	}
	s["Finding"] = func(p *Path, th *Thread, fr *frame, a []Value) Value {
		name := symName(a[0])
		pred := a[1].(*Term)
		for i, f := range p.findings {
			if f.name == name {
				p.findings[i].pred = pred
				return nil
			}
		}
		p.findings = append(p.findings, finding{name, pred})
		return nil
	}
	s["ClearFindings"] = func(p *Path, th *Thread, fr *frame, a []Value) Value {
		p.findings = nil
		return nil
	}
	// NoPanic(name, f): assertion that f() does not panic
	s["NoPanic"] = func(p *Path, th *Thread, fr *frame, a []Value) Value {
		name := symName(a[0])
		msg, panicked := p.callCatch(th, fr, a[1])
		if panicked {
			where := "panic: " + msg
			// the panic happened on this path: every input of the path panics
			p.assertTerm(FalseT, name, where)
			// assertTerm(false) ends the path as infeasible after reporting
		} else {
			p.eng.noteAssert(name, true, false)
		}
		return nil
	}
	// Panics(f): runs f, returns whether it panicked
	s["Panics"] = func(p *Path, th *Thread, fr *frame, a []Value) Value {
		_, panicked := p.callCatch(th, fr, a[0])
		return BoolT(panicked)
	}
	s["And"] = func(p *Path, th *Thread, fr *frame, a []Value) Value { return And(a[0].(*Term), a[1].(*Term)) }
	s["Or"] = func(p *Path, th *Thread, fr *frame, a []Value) Value { return Or(a[0].(*Term), a[1].(*Term)) }
	s["Not"] = func(p *Path, th *Thread, fr *frame, a []Value) Value { return Not(a[0].(*Term)) }
	s["Implies"] = func(p *Path, th *Thread, fr *frame, a []Value) Value {
		return Implies(a[0].(*Term), a[1].(*Term))
	}
	s["IteInt"] = func(p *Path, th *Thread, fr *frame, a []Value) Value {
		return Ite(a[0].(*Term), a[1].(*Term), a[2].(*Term))
	}
	s["IteU64"] = s["IteInt"]
	s["IteU8"] = s["IteInt"]
	s["BytesEq"] = func(p *Path, th *Thread, fr *frame, a []Value) Value {
		return bytesEqTerm(sliceTerms(a[0]), sliceTerms(a[1]))
	}
	s["BytesLess"] = func(p *Path, th *Thread, fr *frame, a []Value) Value {
		return bytesLess(sliceTerms(a[0]), sliceTerms(a[1]))
	}
	s["StrEq"] = func(p *Path, th *Thread, fr *frame, a []Value) Value { return strEq(a[0], a[1]) }
	s["Observe"] = func(p *Path, th *Thread, fr *frame, a []Value) Value {
		p.observes = append(p.observes, symName(a[0]))
		return nil
	}
	s["Reached"] = func(p *Path, th *Thread, fr *frame, a []Value) Value {
		p.eng.noteReached(symName(a[0]))
		return nil
	}
	s["AllocBudget"] = func(p *Path, th *Thread, fr *frame, a []Value) Value {
		p.allocBudget = p.concInt(a[0], "AllocBudget")
		return nil
	}
	s["Go"] = func(p *Path, th *Thread, fr *frame, a []Value) Value {
		p.newThread(a[0], nil)
		return nil
	}
	// Wait blocks until every other thread has finished.
	s["Wait"] = func(p *Path, th *Thread, fr *frame, a []Value) Value {
		p.block(th, func() bool {
			for _, t := range p.threads {
				if t != th && !t.done {
					return false
				}
			}
			return true
		})
		return nil
	}
	// WaitUntil blocks the calling thread until f() holds (f is harness code
	// reading ghost state; it is re-evaluated whenever the thread could run)
	s["WaitUntil"] = func(p *Path, th *Thread, fr *frame, a []Value) Value {
		f := a[0]
		p.block(th, func() bool {
			r := p.call(th, fr, f, nil).(*Term)
			if !r.IsConst() {
				engErr("WaitUntil: condition must be concrete")
			}
			return r.Val != 0
		})
		return nil
	}
	s["FreeRun"] = func(p *Path, th *Thread, fr *frame, a []Value) Value { return nil }
	s["Ghost"] = func(p *Path, th *Thread, fr *frame, a []Value) Value {
		p.call(th, fr, a[0], nil)
		return nil
	}
	s["NoBlock"] = func(p *Path, th *Thread, fr *frame, a []Value) Value {
		p.call(th, fr, a[0], nil)
		return nil
	}
	s["Yield"] = func(p *Path, th *Thread, fr *frame, a []Value) Value { p.yield(th); return nil }
	s["Tier"] = func(p *Path, th *Thread, fr *frame, a []Value) Value { return mkInt(int64(p.eng.tier)) }
	s["Symbolic"] = func(p *Path, th *Thread, fr *frame, a []Value) Value { return TrueT }
	s["Concrete"] = func(p *Path, th *Thread, fr *frame, a []Value) Value {
		return mkInt(p.concInt(a[0], "Concrete"))
	}
	s["ConcreteU64"] = func(p *Path, th *Thread, fr *frame, a []Value) Value {
		return ConstT(64, p.concretize(a[0].(*Term), "ConcreteU64"))
	}
	s["SetClock"] = func(p *Path, th *Thread, fr *frame, a []Value) Value {
		if p.ghost == nil {
			p.ghost = map[string]Value{}
		}
		p.ghost["clockfn"] = a[0]
		return nil
	}
	s["MapOrder"] = func(p *Path, th *Thread, fr *frame, a []Value) Value {
		p.eng.mapOrderForks = a[0].(*Term).Val != 0
		return nil
	}
	// UF64(name, args...) uninterpreted function over uint64 arguments
	s["UF64"] = func(p *Path, th *Thread, fr *frame, a []Value) Value {
		var ts []*Term
		for _, v := range a[1].([]Value) {
			ts = append(ts, v.(*Term))
		}
		return UF("uf_"+sanitize(symName(a[0])), 64, ts...)
	}
	// HashBytes(name, b): UF over a byte string (per length)
	s["HashBytes"] = func(p *Path, th *Thread, fr *frame, a []Value) Value {
		ts := sliceTerms(a[1])
		return hashUF(sanitize(symName(a[0])), 64, ts)
	}
	s["Preemptions"] = func(p *Path, th *Thread, fr *frame, a []Value) Value { return mkInt(int64(p.preempts)) }
	s["ThreadID"] = func(p *Path, th *Thread, fr *frame, a []Value) Value { return mkInt(int64(th.id)) }
	s["Log"] = func(p *Path, th *Thread, fr *frame, a []Value) Value {
		if p.eng.cfg.Trace {
			fmt.Println("LOG:", valString(a[0]))
		}
		return nil
	}
}

// hashUF models a hash of a byte string as an uninterpreted function per
// length (equal inputs give equal outputs; collisions are possible).
func hashUF(name string, w int, ts []*Term) *Term {
	// concrete input: a fixed (FNV) value — equal inputs, equal hashes
	allc := true
	for _, t := range ts {
		if !t.IsConst() {
			allc = false
			break
		}
	}
	if allc {
		h := uint64(14695981039346656037)
		for _, c := range []byte(name) {
			h = (h ^ uint64(c)) * 1099511628211
		}
		for _, t := range ts {
			h = (h ^ (t.Val & 0xff)) * 1099511628211
		}
		return ConstT(w, h)
	}
	if len(ts) == 0 {
		return UF(fmt.Sprintf("%s_0", name), w)
	}
	// pack bytes into 64-bit words to keep arity small
	var words []*Term
	for i := 0; i < len(ts); i += 8 {
		var wd *Term
		for j := i; j < i+8 && j < len(ts); j++ {
			if wd == nil {
				wd = ts[j]
			} else {
				wd = Concat(wd, ts[j])
			}
		}
		words = append(words, wd)
	}
	return UF(fmt.Sprintf("%s_%d", name, len(ts)), w, words...)
}

// callCatch calls f() and reports a target panic instead of propagating it.
func (p *Path) callCatch(th *Thread, fr *frame, f Value) (msg string, panicked bool) {
	defer func() {
		if r := recover(); r != nil {
			tp, ok := r.(targetPanic)
			if !ok {
				panic(r)
			}
			panicked = true
			msg = tp.msg
			if msg == "" {
				msg = p.panicString(th, fr, tp.v)
			}
		}
	}()
	top, depth := th.top, th.depth
	defer func() { th.top, th.depth = top, depth }()
	p.call(th, fr, f, nil)
	return "", false
}

func (p *Path) panicString(th *Thread, fr *frame, v Value) string {
	if it, ok := v.(Iface); ok && it.T != nil {
		if s, ok := it.V.(string); ok {
			return s
		}
		if types.Implements(it.T, errorInterface()) {
			var out string
			func() {
				defer func() {
					if r := recover(); r != nil {
						if _, ok := r.(targetPanic); !ok {
							panic(r)
						}
					}
				}()
				if s, ok := p.callMethod(th, fr, it, "Error").(string); ok {
					out = s
				}
			}()
			if out != "" {
				return out
			}
		}
	}
	s := valString(v)
	if len(s) > 200 {
		s = s[:200]
	}
	return strings.TrimSpace(s)
}
