package main

import (
	"bufio"
	"bytes"
	"crypto/sha1"
	"encoding/json"
	"fmt"
	"go/types"
	"os"
	"os/exec"
	"path/filepath"
	"sort"
	"strings"
	"time"

	"golang.org/x/tools/go/packages"
	"golang.org/x/tools/go/ssa"
)

func typesPointer(t types.Type) types.Type { return types.NewPointer(t) }

type knownFinding struct {
	Property, Entry, Assert, Pred, Text string
}

func loadKnown(id string) (known []knownFinding, fixed []string) {
	f, err := os.Open(filepath.Join(verifDir, "known_findings.txt"))
	if err != nil {
		return
	}
	defer f.Close()
	sc := bufio.NewScanner(f)
	for sc.Scan() {
		line := strings.TrimSpace(sc.Text())
		if strings.HasPrefix(line, "fixed:") {
			if strings.Contains(line, "property="+id+" ") {
				fixed = append(fixed, line)
			}
			continue
		}
		if !strings.HasPrefix(line, "finding:") {
			continue
		}
		kf := knownFinding{}
		body := strings.TrimSpace(strings.TrimPrefix(line, "finding:"))
		if i := strings.Index(body, "#"); i >= 0 {
			kf.Text = strings.TrimSpace(body[i+1:])
			body = body[:i]
		}
		for _, f := range strings.Fields(body) {
			kv := strings.SplitN(f, "=", 2)
			if len(kv) != 2 {
				continue
			}
			switch kv[0] {
			case "property":
				kf.Property = kv[1]
			case "entry":
				kf.Entry = kv[1]
			case "assert":
				kf.Assert = kv[1]
			case "pred":
				kf.Pred = kv[1]
			}
		}
		if kf.Property == id {
			known = append(known, kf)
		}
	}
	return
}

type replayOutcome struct {
	Failed       string   `json:"failed"`
	Msg          string   `json:"msg"`
	Preds        []string `json:"preds"`
	AssumeFailed bool     `json:"assume_failed"`
	Raw          string   `json:"-"`
	Err          string   `json:"-"`
}

// nativeReplay runs the harness natively on the counterexample.
var loadedPkgs []*packages.Package

func nativeReplay(s *Spec, prog *ssa.Program, es EntrySpec, file string, entries []EntrySpec) replayOutcome {
	ov, err := overlayFor(s, true)
	if err != nil {
		return replayOutcome{Err: err.Error()}
	}
	instrumentFS = s.InstrumentFS
	for _, rel := range s.Instrument {
		src, err := instrumentFile(loadedPkgs, rel)
		if err != nil {
			return replayOutcome{Err: err.Error()}
		}
		ov[filepath.Join(repoDir, rel)] = src
	}
	fn := findFunc(prog, es.Func)
	if fn == nil {
		return replayOutcome{Err: "entry not found"}
	}
	pkgPath := fn.Pkg.Pkg.Path()
	pkgName := fn.Pkg.Pkg.Name()
	rel := strings.TrimPrefix(strings.TrimPrefix(pkgPath, nokv), "/")
	var sb strings.Builder
	fmt.Fprintf(&sb, "//go:build verif\n\npackage %s\n\nimport (\n\t\"testing\"\n\tverifsym \"%s/internal/verifsym\"\n)\n\nfunc TestVerifReplay(t *testing.T) {\n\tverifsym.Replay(t, map[string]func(){\n", pkgName, nokv)
	seen := map[string]bool{}
	for _, e := range entries {
		f := findFunc(prog, e.Func)
		if f == nil || f.Pkg.Pkg.Path() != pkgPath || seen[f.Name()] {
			continue
		}
		seen[f.Name()] = true
		fmt.Fprintf(&sb, "\t\t%q: %s,\n", f.Name(), f.Name())
	}
	sb.WriteString("\t})\n}\n")
	ov[filepath.Join(repoDir, rel, "zz_verif_replay_test.go")] = []byte(sb.String())

	tmp, err := os.MkdirTemp("", "verif-replay-")
	if err != nil {
		return replayOutcome{Err: err.Error()}
	}
	defer os.RemoveAll(tmp)
	repl := map[string]string{}
	i := 0
	for target, content := range ov {
		i++
		fp := filepath.Join(tmp, fmt.Sprintf("f%d.go", i))
		if err := os.WriteFile(fp, content, 0o644); err != nil {
			return replayOutcome{Err: err.Error()}
		}
		repl[target] = fp
	}
	oj, _ := json.Marshal(map[string]any{"Replace": repl})
	ovFile := filepath.Join(tmp, "overlay.json")
	os.WriteFile(ovFile, oj, 0o644)
	dir := "./" + rel
	if rel == "" {
		dir = "."
	}
	cmd := exec.Command(filepath.Join(goBin, "go"), "test", "-vet=off", "-count=1", "-tags", "verif", "-overlay", ovFile,
		"-run", "^TestVerifReplay$", "-timeout", "300s", "-v", dir)
	cmd.Dir = repoDir
	cmd.Env = append(goEnv(), "VERIF_REPLAY="+file)
	out, _ := cmd.CombinedOutput()
	ro := replayOutcome{Raw: string(out)}
	for _, line := range strings.Split(string(out), "\n") {
		if i := strings.Index(line, "REPLAY-RESULT "); i >= 0 {
			json.Unmarshal([]byte(line[i+len("REPLAY-RESULT "):]), &ro)
			return ro
		}
	}
	ro.Err = "no REPLAY-RESULT line"
	// a native crash (fatal error / os.Exit / runtime throw) counts as a panic
	if strings.Contains(string(out), "fatal error:") || strings.Contains(string(out), "panic:") {
		ro.Failed = "no-panic"
		ro.Msg = firstLineWith(string(out), "fatal error:", "panic:")
		ro.Err = ""
	}
	return ro
}

func firstLineWith(s string, subs ...string) string {
	for _, l := range strings.Split(s, "\n") {
		for _, sub := range subs {
			if strings.Contains(l, sub) {
				return strings.TrimSpace(l)
			}
		}
	}
	return ""
}

func writeReplayFile(s *Spec, es EntrySpec, v *Violation, tier int) string {
	obj := map[string]any{
		"property": s.ID, "entry": es.Name, "func": es.Func, "assert": v.Assert, "finding": v.Finding,
		"vars": v.Vars, "bytes": v.Bytes, "decisions": v.Trace, "schedule": v.Sched, "where": v.Where, "msg": v.Msg, "tier": tier,
	}
	data, _ := json.MarshalIndent(obj, "", " ")
	h := sha1.Sum(data)
	name := fmt.Sprintf("%s-%s-%s", s.ID, sanitize(es.Name), sanitize(v.Assert))
	if v.Finding != "" {
		name += "-" + sanitize(v.Finding)
	}
	name += fmt.Sprintf("-%x.json", h[:4])
	path := filepath.Join(verifDir, "replays", name)
	os.MkdirAll(filepath.Dir(path), 0o755)
	os.WriteFile(path, data, 0o644)
	return path
}

func replayMatches(v *Violation, ro replayOutcome) bool {
	if ro.Err != "" || ro.AssumeFailed {
		return false
	}
	if ro.Failed == v.Assert {
		return true
	}
	// the native run may trip over an earlier assertion of the same entry (all
	// of them state the property): the counterexample still reproduces a violation
	if ro.Failed != "" && ro.Failed != "no-panic" && v.Assert != "no-panic" && v.Assert != "no-deadlock" {
		return true
	}
	// an over-budget allocation shows natively as makeslice panic / OOM / measured allocation
	if v.Assert == "alloc-bounded" && (ro.Failed == "alloc-bounded" || strings.HasPrefix(ro.Msg, "alloc:")) {
		return true
	}
	return false
}

func runCheck(id, tier string, seed int, replayPath, only string, verbose, noReplay bool) int {
	t0 := time.Now()
	spec, err := loadSpec(id)
	if err != nil {
		fmt.Fprintf(os.Stderr, "check %s: %v\n", id, err)
		return 2
	}
	prog, pkgs, err := loadProgram(spec)
	loadedPkgs = pkgs
	if err != nil {
		fmt.Fprintf(os.Stderr, "check %s: cannot load /repo: %v\n", id, err)
		writeEvidence(spec, tier, seed, nil, nil, time.Since(t0), "load failure: "+err.Error(), 0, nil)
		return 2
	}
	loadS := time.Since(t0).Seconds()
	lemmas, lerr := proveLemmas()
	if lerr != nil {
		fmt.Printf("ENGINE-LEMMA-FAILED %v\n", lerr)
		writeEvidence(spec, tier, seed, nil, nil, time.Since(t0), "engine lemma failed: "+lerr.Error(), 0, map[string]any{"engine_lemmas": lemmas})
		return 2
	}
	for _, a := range spec.Anchors {
		if findFunc(prog, a) == nil {
			fmt.Printf("ANCHOR-MISSING property=%s function=%s\n", id, a)
			writeEvidence(spec, tier, seed, nil, nil, time.Since(t0), "anchor missing: "+a, 0, nil)
			return 2
		}
	}
	if replayPath != "" {
		return replayOnly(spec, prog, replayPath)
	}
	tierN := 0
	if tier == "thorough" {
		tierN = 1
	}
	known, _ := loadKnown(id)
	var budgetNotes []string
	var results []*EntryResult
	exit := 0
	nViol := 0
	replays := 0
	var lines []string
	for _, es := range spec.Entries {
		if only != "" && es.Name != only {
			continue
		}
		if len(es.Tiers) > 0 {
			ok := false
			for _, t := range es.Tiers {
				if t == tier {
					ok = true
				}
			}
			if !ok {
				continue
			}
		}
		r := runEntry(prog, spec, es, tier)
		results = append(results, r)
		if verbose {
			b, _ := json.MarshalIndent(r, "", " ")
			fmt.Fprintln(os.Stderr, string(b))
		}
		fmt.Printf("entry %-28s %-10s paths=%d (complete=%d infeasible=%d) queries=%d asserts=%s wall=%.1fs\n", es.Name, r.Status, r.TotalPaths,
			r.Paths["complete"], r.Paths["infeasible"], r.Queries, assertSummary(r), r.WallS)
		switch r.Status {
		case "broken":
			for _, e := range r.EngineErrors {
				fmt.Printf("  ENGINE-ERROR %s\n", firstLines(e, 12))
			}
			for _, e := range r.SolverErrors {
				fmt.Printf("  SOLVER-ERROR %s\n", e)
			}
			for _, e := range r.Vacuity {
				fmt.Printf("  VACUOUS %s\n", e)
			}
			if exit == 0 {
				exit = 2
			}
		case "incomplete":
			budgetOnly := tier == "thorough" && len(r.Inconclusive) == 0 && len(r.Incomplete) > 0
			for k, n := range r.Incomplete {
				fmt.Printf("  INCOMPLETE %s (x%d)\n", k, n)
				if k != "wall-clock limit" && k != "path limit" {
					budgetOnly = false
				}
			}
			for _, e := range r.Inconclusive {
				fmt.Printf("  INCONCLUSIVE %s\n", e)
			}
			if budgetOnly {
				// thorough tier: the exploration budget ran out. The property held on every
				// path explored; the run is NOT exhaustive (the evidence file says so) and
				// claims nothing about the paths it did not reach.
				fmt.Printf("  BUDGET-EXHAUSTED entry=%s: held on every explored path, exploration not exhaustive within the thorough budget\n", es.Name)
				budgetNotes = append(budgetNotes, es.Name)
			} else if exit == 0 {
				exit = 2
			}
		}
		if len(r.Violations) > 0 && r.Status != "violated" {
			// still report what was found on an incomplete run
			for k, n := range r.Incomplete {
				fmt.Printf("  INCOMPLETE %s (x%d)\n", k, n)
			}
		}
		for _, v := range r.Violations {
			file := writeReplayFile(spec, es, v, tierN)
			var kf *knownFinding
			for i := range known {
				if known[i].Assert == v.Assert && known[i].Pred == v.Finding && v.Finding != "" && (known[i].Entry == "" || known[i].Entry == es.Name) {
					kf = &known[i]
				}
			}
			if noReplay {
				fmt.Printf("  UNREPLAYED assert=%s finding=%s file=%s %s\n", v.Assert, v.Finding, file, v.Msg)
				if exit == 0 {
					exit = 2
				}
				continue
			}
			ro := nativeReplay(spec, prog, es, file, spec.Entries)
			replays++
			for retry := 0; retry < 2 && !replayMatches(v, ro); retry++ {
				// a replay runs real goroutines, timers and a real file system: retry before
				// declaring a mismatch
				ro = nativeReplay(spec, prog, es, file, spec.Entries)
			}
			if !replayMatches(v, ro) {
				fmt.Printf("  ENGINE-MISMATCH entry=%s assert=%s finding=%s native=%q msg=%q err=%q file=%s\n", es.Name, v.Assert, v.Finding, ro.Failed, ro.Msg, ro.Err, file)
				if verbose || ro.Err != "" {
					fmt.Println(indent(lastLines(ro.Raw, 25)))
				}
				if exit == 0 {
					exit = 2
				}
				continue
			}
			if kf != nil {
				lines = append(lines, fmt.Sprintf("KNOWN-FINDING: property=%s entry=%s assert=%s pred=%s %s [replay=%s]", id, es.Name, v.Assert, v.Finding, kf.Text, file))
				continue
			}
			nViol++
			lines = append(lines, fmt.Sprintf("VIOLATION property=%s replay=%s", id, file))
			lines = append(lines, fmt.Sprintf("  entry=%s assert=%s finding=%q %s %s", es.Name, v.Assert, v.Finding, v.Msg, firstLines(v.Where, 3)))
			exit = 1
		}
	}
	for _, l := range lines {
		fmt.Println(l)
	}
	note := ""
	if exit == 2 {
		note = "run not conclusive (incomplete / engine error): must not be read as a pass"
	} else if len(budgetNotes) > 0 {
		note = "thorough budget exhausted in entries " + strings.Join(budgetNotes, ", ") + ": the property held on every explored path, the exploration of those entries is not exhaustive"
	}
	writeEvidence(spec, tier, seed, results, lines, time.Since(t0), note, replays, map[string]any{"load_s": loadS, "engine_lemmas": lemmas})
	if exit == 0 {
		fmt.Printf("OK property=%s tier=%s entries=%d wall=%.1fs\n", id, tier, len(results), time.Since(t0).Seconds())
	}
	return exit
}

func assertSummary(r *EntryResult) string {
	var parts []string
	for _, k := range sortedKeys(r.Asserts) {
		st := r.Asserts[k]
		parts = append(parts, fmt.Sprintf("%s:%d/%d", k, st.Held, st.Evaluated))
	}
	s := strings.Join(parts, ",")
	if len(s) > 160 {
		s = s[:160] + "…"
	}
	return s
}

func firstLines(s string, n int) string {
	ls := strings.Split(strings.TrimSpace(s), "\n")
	if len(ls) > n {
		ls = ls[:n]
	}
	return strings.Join(ls, "\n    ")
}

func lastLines(s string, n int) string {
	ls := strings.Split(strings.TrimSpace(s), "\n")
	if len(ls) > n {
		ls = ls[len(ls)-n:]
	}
	return strings.Join(ls, "\n")
}

func indent(s string) string { return "    " + strings.ReplaceAll(s, "\n", "\n    ") }

func replayOnly(spec *Spec, prog *ssa.Program, path string) int {
	if abs, err := filepath.Abs(path); err == nil {
		path = abs
	}
	data, err := os.ReadFile(path)
	if err != nil {
		fmt.Fprintln(os.Stderr, err)
		return 2
	}
	var obj struct {
		Entry  string `json:"entry"`
		Assert string `json:"assert"`
	}
	json.Unmarshal(data, &obj)
	for _, es := range spec.Entries {
		if es.Name == obj.Entry {
			ro := nativeReplay(spec, prog, es, path, spec.Entries)
			fmt.Println(lastLines(ro.Raw, 40))
			if ro.Failed != "" {
				fmt.Printf("VIOLATION property=%s replay=%s\n  native run failed assertion %q %s\n", spec.ID, path, ro.Failed, ro.Msg)
				return 1
			}
			if ro.Err != "" {
				fmt.Println("replay could not run: " + ro.Err)
				return 2
			}
			fmt.Println("replay: no assertion failed natively")
			return 0
		}
	}
	fmt.Fprintln(os.Stderr, "entry not found in spec: "+obj.Entry)
	return 2
}

func writeEvidence(spec *Spec, tier string, seed int, results []*EntryResult, lines []string, wall time.Duration, note string, replays int, extra map[string]any) {
	states, transitions, oblig, discharged := 0, 0, 0, 0
	var samples []any
	solverS := 0.0
	viol := 0
	funcs := append([]string{}, spec.Functions...)
	boundsDesc := map[string]any{}
	var incompl []string
	vacWitness := map[string]any{}
	for _, r := range results {
		states += r.TotalPaths
		transitions += r.Queries
		solverS += r.SolverS
		for name, st := range r.Asserts {
			oblig += st.Evaluated
			discharged += st.Held
			vacWitness[r.Name+"/"+name] = st.Evaluated
		}
		for _, ps := range r.Samples {
			if len(samples) < 6 {
				samples = append(samples, map[string]any{"entry": r.Name, "path": ps})
			}
		}
		for _, v := range r.Violations {
			if len(samples) < 10 {
				samples = append(samples, map[string]any{"entry": r.Name, "counterexample": map[string]any{"assert": v.Assert, "finding": v.Finding, "vars": v.Vars}})
			}
		}
		boundsDesc[r.Name] = map[string]any{"bounds": r.Bounds, "describe": r.Describe, "status": r.Status, "paths": r.Paths,
			"queries": r.Queries, "sat": r.Sat, "unsat": r.Unsat, "unknown": r.Unknown, "solver_s": r.SolverS, "wall_s": r.WallS,
			"max_unwind_seen": r.MaxUnwind, "instructions": r.Steps, "asserts": r.Asserts, "reached": r.Reached, "cuts": r.Cuts}
		for k := range r.Incomplete {
			incompl = append(incompl, r.Name+": "+k)
		}
		incompl = append(incompl, r.Inconclusive...)
		for _, e := range r.EngineErrors {
			incompl = append(incompl, r.Name+": engine error: "+firstLines(e, 2))
		}
	}
	for _, l := range lines {
		if strings.HasPrefix(l, "VIOLATION") {
			viol++
		}
	}
	if len(samples) == 0 {
		samples = append(samples, map[string]any{"note": "no path sample recorded", "reason": note})
	}
	sort.Strings(funcs)
	cov := map[string]any{
		"states":                        max1(states),
		"transitions":                   max1(transitions),
		"traces_validated_against_impl": replays,
		"samples":                       samples,
		"evaluations":                   max1(states),
		"distinct_nontrivial":           states,
		"rule":                          "one evaluation = one explored path of the harness (a distinct decision vector: branch outcomes, concretised lengths/indices, schedule and crash-point choices); every path is closed by solver queries over all values of its symbolic inputs; a path is non-trivial when it made at least one symbolic decision or assertion query",
		"obligations":                   oblig,
		"discharged":                    discharged,
		"explanation":                   "bounded symbolic execution of the real functions (go/ssa of /repo's working tree) with an SMT solver deciding every branch and assertion; 'states' = paths closed, 'transitions' = solver queries, 'traces_validated_against_impl' = counterexamples replayed natively against the real build",
		"functions_encoded":             funcs,
		"stubs":                         spec.Stubs,
		"outside_claim":                 spec.Outside,
		"entries":                       boundsDesc,
		"solver":                        map[string]any{"name": "z3 4.8.12 (/usr/bin/z3 -in, no set-logic)", "solver_s": solverS},
		"report_lines":                  lines,
		"incomplete_reasons":            incompl,
		"assertions_evaluated":          vacWitness,
		"exhaustive":                    len(incompl) == 0 && note == "",
	}
	for k, v := range extra {
		cov[k] = v
	}
	if note != "" {
		cov["note"] = note
	}
	ev := map[string]any{
		"property_id": spec.ID,
		"tier":        tier,
		"seed":        seed,
		"level":       "model_checking",
		"coverage":    cov,
		"assumptions": spec.Assumptions,
		"wall_s":      wall.Seconds(),
		"violations":  viol,
	}
	if ev["assumptions"] == nil {
		ev["assumptions"] = []string{}
	}
	var buf bytes.Buffer
	enc := json.NewEncoder(&buf)
	enc.SetIndent("", " ")
	enc.Encode(ev)
	os.MkdirAll(filepath.Join(verifDir, "evidence"), 0o755)
	os.WriteFile(filepath.Join(verifDir, "evidence", spec.ID+".json"), buf.Bytes(), 0o644)
}

func max1(n int) int {
	if n < 1 {
		return 1
	}
	return n
}
