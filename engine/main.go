package main

// check — driver: loads /repo's current source (+ harness overlay), runs the
// symbolic execution of every harness entry of a property, replays
// counterexamples natively, prints VIOLATION / KNOWN-FINDING lines and writes
// the evidence file.

import (
	"encoding/json"
	"flag"
	"fmt"
	"os"
	"path/filepath"
	"runtime"
	"runtime/debug"
	"runtime/pprof"
	"sort"
	"strconv"
	"strings"
	"time"

	"golang.org/x/tools/go/packages"
	"golang.org/x/tools/go/ssa"
	"golang.org/x/tools/go/ssa/ssautil"
)

const (
	repoDir  = "/repo"
	verifDir = "/verif"
	goBin    = "/opt/veriftools/go1.26.8/bin"
)

type Bounds struct {
	Unwind        int   `json:"unwind"`
	MaxSteps      int64 `json:"max_steps"`
	MaxPaths      int   `json:"max_paths"`
	MaxConcretize int   `json:"max_concretize"`
	Preempt       int   `json:"preempt"`
	TimeoutMs     int   `json:"query_timeout_ms"`
	WallS         int   `json:"wall_s"`
	MaxDepth      int   `json:"max_depth"`
}

type EntrySpec struct {
	Func     string   `json:"func"`     // fully qualified: pkgpath.Name
	Name     string   `json:"name"`     // obligation name
	Asserts  []string `json:"asserts"`  // assertion names that must be evaluated (vacuity guard)
	Reached  []string `json:"reached"`  // Reached() markers that must be hit
	Quick    *Bounds  `json:"quick"`    // overrides
	Thorough *Bounds  `json:"thorough"` // overrides
	Tiers    []string `json:"tiers"`    // if set, only run in these tiers
	Describe string   `json:"describe"` // what the obligation states (bounds in words)
	Havoc    []string `json:"havoc"`    // per-entry havoc stubs
	Replace  map[string]string `json:"replace"` // per-entry replacements (added to the spec-level ones)
}

type Spec struct {
	ID          string            `json:"id"`
	Patterns    []string          `json:"patterns"`
	Overlay     map[string]string `json:"overlay"` // repo-relative target -> file under harness dir
	Entries     []EntrySpec       `json:"entries"`
	Replace     map[string]string `json:"replace"` // real function -> stub function (both fully qualified)
	Anchors     []string          `json:"anchors"` // functions that must exist in /repo (else: anchor missing)
	ReplayPkg   string            `json:"replay_pkg"`
	Functions   []string          `json:"functions_encoded"`
	Stubs       []string          `json:"stubs"`
	Assumptions []string          `json:"assumptions"`
	Outside     []string          `json:"outside_claim"`
	MapOrder    bool              `json:"map_order_forks"`
	NoCRCLemmas bool              `json:"no_crc_lemmas"` // CRC stays an uninterpreted function but its injectivity lemmas are not instantiated (kernels that never corrupt data)
	PoolReuse   bool              `json:"pool_reuse"` // sync.Pool.Get may return an object handed to Put earlier (both outcomes explored)
	Opaque      map[string]bool   `json:"opaque"`
	Havoc       []string          `json:"havoc"` // functions replaced by "returns arbitrary results, no side effects"
	InstrumentFS bool             `json:"instrument_fs"` // vfs.FS / vfs.File calls and syscall.Flock are scheduling points too
	Instrument  []string          `json:"instrument"` // repo-relative kernel files instrumented with scheduling points for native replays
	dir         string
}

func defaultBounds(tier string) Bounds {
	b := Bounds{Unwind: 64, MaxSteps: 5_000_000, MaxPaths: 200_000, MaxConcretize: 64, Preempt: 2, TimeoutMs: 20_000, WallS: 240, MaxDepth: 400}
	if tier == "thorough" {
		b.TimeoutMs = 120_000
		b.WallS = 1500
		b.Preempt = 3
		b.MaxPaths = 2_000_000
	}
	return b
}

func merge(b Bounds, o *Bounds) Bounds {
	if o == nil {
		return b
	}
	if o.Unwind != 0 {
		b.Unwind = o.Unwind
	}
	if o.MaxSteps != 0 {
		b.MaxSteps = o.MaxSteps
	}
	if o.MaxPaths != 0 {
		b.MaxPaths = o.MaxPaths
	}
	if o.MaxConcretize != 0 {
		b.MaxConcretize = o.MaxConcretize
	}
	if o.Preempt != 0 {
		b.Preempt = o.Preempt
	}
	if o.TimeoutMs != 0 {
		b.TimeoutMs = o.TimeoutMs
	}
	if o.WallS != 0 {
		b.WallS = o.WallS
	}
	if o.MaxDepth != 0 {
		b.MaxDepth = o.MaxDepth
	}
	return b
}

func goEnv() []string {
	env := os.Environ()
	out := env[:0]
	for _, e := range env {
		if strings.HasPrefix(e, "PATH=") || strings.HasPrefix(e, "GOFLAGS=") || strings.HasPrefix(e, "GOPROXY=") ||
			strings.HasPrefix(e, "GOTOOLCHAIN=") || strings.HasPrefix(e, "GOSUMDB=") || strings.HasPrefix(e, "GOWORK=") {
			continue
		}
		out = append(out, e)
	}
	out = append(out, "PATH="+goBin+":"+os.Getenv("PATH"), "GOFLAGS=-mod=mod", "GOPROXY=off", "GOTOOLCHAIN=local", "GOSUMDB=off", "GOWORK=off")
	return out
}

func loadSpec(id string) (*Spec, error) {
	dir := filepath.Join(verifDir, "harness", id)
	data, err := os.ReadFile(filepath.Join(dir, "spec.json"))
	if err != nil {
		return nil, err
	}
	var s Spec
	if err := json.Unmarshal(data, &s); err != nil {
		return nil, fmt.Errorf("spec.json: %v", err)
	}
	s.dir = dir
	if s.ID == "" {
		s.ID = id
	}
	return &s, nil
}

// overlayFor builds the overlay map for the engine (native=false) or for the
// native replay (native=true).
func overlayFor(s *Spec, native bool) (map[string][]byte, error) {
	ov := map[string][]byte{}
	symFile := "sym_decl.go"
	if native {
		symFile = "sym_native.go"
	}
	b, err := os.ReadFile(filepath.Join(verifDir, "harness", "sym", symFile))
	if err != nil {
		return nil, err
	}
	ov[filepath.Join(repoDir, "internal/verifsym/sym.go")] = b
	for target, src := range s.Overlay {
		b, err := os.ReadFile(filepath.Join(s.dir, src))
		if err != nil {
			// shared files live under harness/shared
			b, err = os.ReadFile(filepath.Join(verifDir, "harness", src))
			if err != nil {
				return nil, err
			}
		}
		ov[filepath.Join(repoDir, target)] = b
	}
	return ov, nil
}

func loadProgram(s *Spec) (*ssa.Program, []*packages.Package, error) {
	ov, err := overlayFor(s, false)
	if err != nil {
		return nil, nil, err
	}
	cfg := &packages.Config{
		Mode:       packages.LoadAllSyntax,
		Dir:        repoDir,
		Env:        goEnv(),
		Overlay:    ov,
		BuildFlags: []string{"-tags=verif"},
	}
	pkgs, err := packages.Load(cfg, s.Patterns...)
	if err != nil {
		return nil, nil, err
	}
	var errs []string
	packages.Visit(pkgs, nil, func(p *packages.Package) {
		for _, e := range p.Errors {
			if len(errs) < 10 {
				errs = append(errs, e.Error())
			}
		}
	})
	if len(errs) > 0 {
		return nil, nil, fmt.Errorf("load errors:\n%s", strings.Join(errs, "\n"))
	}
	prog, _ := ssautil.AllPackages(pkgs, ssa.InstantiateGenerics)
	prog.Build()
	return prog, pkgs, nil
}

func findFunc(prog *ssa.Program, qual string) *ssa.Function {
	// qual: pkgpath.Name  or  (pkgpath.Type).Method / (*pkgpath.Type).Method
	if strings.HasPrefix(qual, "(") {
		end := strings.Index(qual, ")")
		recv := qual[1:end]
		meth := qual[end+2:]
		ptr := strings.HasPrefix(recv, "*")
		recv = strings.TrimPrefix(recv, "*")
		dot := strings.LastIndex(recv, ".")
		pkg := prog.ImportedPackage(recv[:dot])
		if pkg == nil {
			return nil
		}
		t := pkg.Type(recv[dot+1:])
		if t == nil {
			return nil
		}
		_ = ptr
		for _, typ := range []interface{ String() string }{} {
			_ = typ
		}
		ms := prog.MethodSets.MethodSet(t.Type())
		if ptr {
			ms = prog.MethodSets.MethodSet(typesPointer(t.Type()))
		}
		for i := 0; i < ms.Len(); i++ {
			if ms.At(i).Obj().Name() == meth {
				return prog.MethodValue(ms.At(i))
			}
		}
		return nil
	}
	dot := strings.LastIndex(qual, ".")
	if dot < 0 {
		return nil
	}
	pkg := prog.ImportedPackage(qual[:dot])
	if pkg == nil {
		return nil
	}
	return pkg.Func(qual[dot+1:])
}

type EntryResult struct {
	Name          string                 `json:"name"`
	Func          string                 `json:"func"`
	Describe      string                 `json:"describe,omitempty"`
	Bounds        Bounds                 `json:"bounds"`
	Paths         map[string]int         `json:"paths"`
	TotalPaths    int                    `json:"total_paths"`
	Queries       int                    `json:"solver_queries"`
	Sat           int                    `json:"sat"`
	Unsat         int                    `json:"unsat"`
	Unknown       int                    `json:"unknown"`
	SolverS       float64                `json:"solver_s"`
	WallS         float64                `json:"wall_s"`
	Steps         int64                  `json:"instructions"`
	MaxUnwind     int                    `json:"max_unwind_seen"`
	Asserts       map[string]*AssertStat `json:"asserts"`
	Reached       map[string]int         `json:"reached"`
	Incomplete    map[string]int         `json:"incomplete_reasons,omitempty"`
	EngineErrors  []string               `json:"engine_errors,omitempty"`
	Inconclusive  []string               `json:"inconclusive,omitempty"`
	SolverErrors  []string               `json:"solver_errors,omitempty"`
	UnknownBranch int                    `json:"unknown_branch_feasibility"`
	Violations    []*Violation           `json:"violations,omitempty"`
	Samples       []PathSample           `json:"samples,omitempty"`
	Vacuity       []string               `json:"vacuity_failures,omitempty"`
	Cuts          map[string]int         `json:"cuts,omitempty"`
	Status        string                 `json:"status"` // held | violated | incomplete | broken
}

func runEntry(prog *ssa.Program, s *Spec, es EntrySpec, tier string) *EntryResult {
	b := defaultBounds(tier)
	if tier == "thorough" {
		b = merge(b, es.Quick)
		b2 := defaultBounds(tier)
		if es.Quick != nil && es.Quick.WallS != 0 {
			b.WallS = b2.WallS
		}
		b = merge(b, es.Thorough)
	} else {
		b = merge(b, es.Quick)
	}
	workers := runtime.NumCPU() - 2
	if workers < 1 {
		workers = 1
	}
	if w := os.Getenv("GOSYM_WORKERS"); w != "" {
		workers, _ = strconv.Atoi(w)
	}
	cfg := Config{Unwind: b.Unwind, MaxSteps: b.MaxSteps, MaxPaths: b.MaxPaths, MaxConcretize: b.MaxConcretize,
		Preempt: b.Preempt, TimeoutMs: b.TimeoutMs, Workers: workers, MaxDepth: b.MaxDepth, Trace: os.Getenv("GOSYM_TRACE") != ""}
	res := &EntryResult{Name: es.Name, Func: es.Func, Bounds: b, Describe: es.Describe}
	fn := findFunc(prog, es.Func)
	if fn == nil {
		res.Status = "broken"
		res.EngineErrors = []string{"entry function not found: " + es.Func}
		return res
	}
	e := NewEngine(prog, cfg)
	e.mapOrderForks = s.MapOrder
	e.poolReuse = s.PoolReuse
	e.noCRCLemmas = s.NoCRCLemmas
	if tier == "thorough" {
		e.tier = 1
	}
	for k, v := range s.Opaque {
		e.opaque[k] = v
	}
	allReplace := map[string]string{}
	for k, v := range s.Replace {
		allReplace[k] = v
	}
	for k, v := range es.Replace {
		allReplace[k] = v
	}
	for real, stub := range allReplace {
		sf := findFunc(prog, stub)
		if sf == nil {
			res.Status = "broken"
			res.EngineErrors = append(res.EngineErrors, "stub function not found: "+stub)
			return res
		}
		rf := findFunc(prog, real)
		if rf == nil {
			res.Status = "broken"
			res.EngineErrors = append(res.EngineErrors, "anchor missing: "+real)
			return res
		}
		e.replace[funcKey(rf)] = sf
	}
	for _, h := range append(append([]string{}, s.Havoc...), es.Havoc...) {
		hf := findFunc(prog, h)
		if hf == nil {
			res.Status = "broken"
			res.EngineErrors = append(res.EngineErrors, "anchor missing (havoc): "+h)
			return res
		}
		e.externals[funcKey(hf)] = havocFn(hf)
	}
	t0 := time.Now()
	e.Explore(fn, time.Duration(b.WallS)*time.Second)
	res.WallS = time.Since(t0).Seconds()
	res.Paths = map[string]int{}
	for o, n := range e.paths {
		res.Paths[o.String()] = n
	}
	res.TotalPaths = e.totalPaths
	res.Queries, res.Sat, res.Unsat, res.Unknown = e.queries, e.nsat, e.nunsat, e.nunk
	res.SolverS = e.solverTime.Seconds()
	res.Steps = e.steps
	res.MaxUnwind = e.maxUnwind
	res.Asserts = e.asserts
	res.Reached = e.reached
	res.Incomplete = e.incomplete
	res.EngineErrors = append(res.EngineErrors, e.engineErrors...)
	res.Inconclusive = e.inconclusive
	res.SolverErrors = e.solverErrors
	res.UnknownBranch = e.unknownBranch
	res.Violations = e.violations
	res.Samples = e.pathSamples
	res.Cuts = e.cuts
	sort.Slice(res.Violations, func(i, j int) bool {
		return res.Violations[i].Assert+res.Violations[i].Finding < res.Violations[j].Assert+res.Violations[j].Finding
	})
	// vacuity guard
	for _, a := range es.Asserts {
		if st := e.asserts[a]; st == nil || st.Evaluated == 0 {
			res.Vacuity = append(res.Vacuity, "assertion never evaluated: "+a)
		}
	}
	for _, r := range es.Reached {
		if e.reached[r] == 0 {
			res.Vacuity = append(res.Vacuity, "marker never reached: "+r)
		}
	}
	if e.paths[OutComplete] == 0 && len(e.violations) == 0 {
		res.Vacuity = append(res.Vacuity, "no path completed")
	}
	switch {
	case len(res.EngineErrors) > 0 || len(res.SolverErrors) > 0:
		res.Status = "broken"
	case len(res.Violations) > 0:
		res.Status = "violated"
	case len(res.Incomplete) > 0 || len(res.Inconclusive) > 0:
		res.Status = "incomplete"
	case len(res.Vacuity) > 0:
		res.Status = "broken"
	default:
		res.Status = "held"
	}
	return res
}

func main() {
	tier := flag.String("tier", "", "quick|thorough")
	replay := flag.String("replay", "", "replay a counterexample file natively")
	only := flag.String("entry", "", "run only the entry with this name")
	verbose := flag.Bool("v", false, "verbose")
	noReplay := flag.Bool("no-replay", false, "skip native replays (debugging only: violations are then reported as UNREPLAYED and the check exits 2)")
	flag.Usage = func() {
		fmt.Fprintln(os.Stderr, "usage: check [flags] <property-id>")
		flag.PrintDefaults()
	}
	// the loaded SSA program is a large, long-lived heap; interpretation allocates
	// short-lived garbage at a high rate: collect rarely
	// (measured: a larger GOGC is slower here — fresh-span initialisation dominates)
	if os.Getenv("GOGC") == "" {
		debug.SetGCPercent(75)
	}
	// go/packages looks `go` up through this process's PATH
	os.Setenv("PATH", goBin+":"+os.Getenv("PATH"))
	os.Setenv("GOFLAGS", "-mod=mod")
	os.Setenv("GOPROXY", "off")
	os.Setenv("GOTOOLCHAIN", "local")
	os.Setenv("GOSUMDB", "off")
	// allow flags after the id
	args := os.Args[1:]
	var id string
	var rest []string
	for i := 0; i < len(args); i++ {
		if !strings.HasPrefix(args[i], "-") && id == "" {
			id = args[i]
			continue
		}
		rest = append(rest, args[i])
	}
	flag.CommandLine.Parse(rest)
	if id == "" {
		flag.Usage()
		os.Exit(2)
	}
	if *tier == "" {
		*tier = os.Getenv("VERIF_TIER")
	}
	if *tier == "" {
		*tier = "quick"
	}
	seed := 0
	if s := os.Getenv("VERIF_SEED"); s != "" {
		seed, _ = strconv.Atoi(s)
	}
	if pf := os.Getenv("GOSYM_PROF"); pf != "" {
		f, _ := os.Create(pf)
		pprof.StartCPUProfile(f)
		code := runCheck(id, *tier, seed, *replay, *only, *verbose, *noReplay)
		pprof.StopCPUProfile()
		f.Close()
		os.Exit(code)
	}
	os.Exit(runCheck(id, *tier, seed, *replay, *only, *verbose, *noReplay))
}
