package main

// Channels, select and the sync / sync/atomic primitives, all scheduled by the
// engine (context switches happen only at these visible operations).

import (
	"go/types"

	"golang.org/x/tools/go/ssa"
)

func (p *Path) chanSend(fr *frame, c *Chan, v Value) {
	th := fr.th
	p.yield(th)
	if c == nil {
		p.block(th, func() bool { return false })
	}
	if c.closed {
		panic(targetPanic{v: p.runtimeErrorValue("send on closed channel"), msg: "send on closed channel"})
	}
	if c.cap > 0 {
		p.block(th, func() bool { return c.closed || len(c.buf) < c.cap })
		if c.closed {
			panic(targetPanic{v: p.runtimeErrorValue("send on closed channel"), msg: "send on closed channel"})
		}
		c.buf = append(c.buf, copyVal(v))
		return
	}
	// unbuffered: hand-off slot, then wait until taken
	p.block(th, func() bool { return c.closed || len(c.buf) == 0 })
	if c.closed {
		panic(targetPanic{v: p.runtimeErrorValue("send on closed channel"), msg: "send on closed channel"})
	}
	c.buf = append(c.buf, copyVal(v))
	tok := new(int)
	c.pending = tok
	p.block(th, func() bool { return c.pending != tok || c.closed })
}

func (p *Path) chanRecv(fr *frame, c *Chan, commaOk bool, elem types.Type) Value {
	th := fr.th
	p.yield(th)
	if c == nil {
		p.block(th, func() bool { return false })
	}
	c.recvWaiting++
	p.block(th, func() bool { return len(c.buf) > 0 || c.closed })
	c.recvWaiting--
	var v Value
	ok := false
	if len(c.buf) > 0 {
		v = c.buf[0]
		c.buf = c.buf[1:]
		c.pending = nil
		ok = true
	} else {
		v = zero(elem)
	}
	if commaOk {
		return Tuple{v, BoolT(ok)}
	}
	return v
}

func (p *Path) chanClose(fr *frame, c *Chan) {
	p.yield(fr.th)
	if c == nil {
		panic(targetPanic{v: p.runtimeErrorValue("close of nil channel"), msg: "close of nil channel"})
	}
	if c.closed {
		panic(targetPanic{v: p.runtimeErrorValue("close of closed channel"), msg: "close of closed channel"})
	}
	c.closed = true
}

func (p *Path) selectStmt(fr *frame, instr *ssa.Select) Value {
	th := fr.th
	p.yield(th)
	type cs struct {
		c    *Chan
		send bool
		v    Value
	}
	cases := make([]cs, len(instr.States))
	for i, st := range instr.States {
		c, _ := fr.get(st.Chan).(*Chan)
		cases[i] = cs{c: c, send: st.Dir == types.SendOnly}
		if st.Send != nil {
			cases[i].v = fr.get(st.Send)
		}
	}
	ready := func() []int {
		var r []int
		for i, c := range cases {
			if c.c == nil {
				continue
			}
			if c.send {
				if c.c.closed || (c.c.cap > 0 && len(c.c.buf) < c.c.cap) || (c.c.cap == 0 && len(c.c.buf) == 0 && c.c.recvWaiting > 0) {
					r = append(r, i)
				}
			} else if len(c.c.buf) > 0 || c.c.closed {
				r = append(r, i)
			}
		}
		return r
	}
	r := ready()
	chosen := -1
	if len(r) == 0 {
		if !instr.Blocking {
			chosen = -1
		} else {
			// register as a waiting receiver on every recv channel so that
			// unbuffered select-senders can see us
			for _, c := range cases {
				if c.c != nil && !c.send {
					c.c.recvWaiting++
				}
			}
			p.block(th, func() bool { return len(ready()) > 0 })
			for _, c := range cases {
				if c.c != nil && !c.send {
					c.c.recvWaiting--
				}
			}
			r = ready()
		}
	}
	if len(r) > 0 {
		chosen = r[p.choose(len(r))]
	}
	res := Tuple{mkInt(int64(chosen)), FalseT}
	recvOk := false
	var recvVals []Value
	for i, st := range instr.States {
		if st.Dir == types.RecvOnly {
			elem := st.Chan.Type().Underlying().(*types.Chan).Elem()
			if i == chosen {
				c := cases[i].c
				if len(c.buf) > 0 {
					recvVals = append(recvVals, c.buf[0])
					c.buf = c.buf[1:]
					c.pending = nil
					recvOk = true
				} else {
					recvVals = append(recvVals, zero(elem))
				}
			} else {
				recvVals = append(recvVals, zero(elem))
			}
		}
	}
	if chosen >= 0 && cases[chosen].send {
		c := cases[chosen].c
		if c.closed {
			panic(targetPanic{v: p.runtimeErrorValue("send on closed channel"), msg: "send on closed channel"})
		}
		c.buf = append(c.buf, copyVal(cases[chosen].v))
		if c.cap == 0 {
			tok := new(int)
			c.pending = tok
			p.block(th, func() bool { return c.pending != tok || c.closed })
		}
	}
	res[1] = BoolT(recvOk)
	res = append(res, recvVals...)
	return res
}
