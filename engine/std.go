package main

// Std-lib and NoKV leaf functions modelled by the engine:
// CRC-32C as an uninterpreted step function with concrete folding and the two
// injectivity lemmas (proved bit-precisely at start-up, see lemmas.go);
// memhash / xxhash as uninterpreted functions per input length.

import (
	"go/types"
	"hash/crc32"

	"golang.org/x/tools/go/ssa"
)

const nokv = "github.com/feichai0017/NoKV"

var castagnoli = crc32.MakeTable(crc32.Castagnoli)

type crcApp struct{ s, b, r *Term }

// crcStep models one byte of crc32.Update (external representation).
func (p *Path) crcStep(s, b *Term) *Term {
	apps, _ := p.ghost["crcapps"].([]crcApp)
	if p.ghost == nil {
		p.ghost = map[string]Value{}
	}
	if s.IsConst() && b.IsConst() {
		r := ConstT(32, uint64(crc32.Update(uint32(s.Val), castagnoli, []byte{byte(b.Val)})))
		// concrete applications are remembered too (bounded), so that a later
		// symbolic application at the same state or byte is tied to them
		if !p.eng.noCRCLemmas && len(apps) < 600 {
			p.ghost["crcapps"] = append(apps, crcApp{s, b, r})
		}
		return r
	}
	// the same step over the same terms (a checksum recomputed over bytes read
	// back from a buffer) is the same application
	for _, a := range apps {
		if a.s == s && a.b == b {
			return a.r
		}
	}
	r := UF("crc32c_step", 32, s, b)
	for _, a := range apps {
		if p.eng.noCRCLemmas {
			break
		}
		// s equal, b different  => results differ;  b equal, s different => results differ
		p.addPC(Implies(And(Eq(a.s, s), Not(Eq(a.b, b))), Not(Eq(a.r, r))))
		p.addPC(Implies(And(Not(Eq(a.s, s)), Eq(a.b, b)), Not(Eq(a.r, r))))
		if a.r.IsConst() {
			// a concrete application is not an uninterpreted term: state its
			// functional consistency with the new one explicitly
			p.addPC(Implies(And(Eq(a.s, s), Eq(a.b, b)), Eq(a.r, r)))
		}
	}
	p.ghost["crcapps"] = append(apps, crcApp{s, b, r})
	return r
}

func (p *Path) crcUpdate(crc *Term, data []*Term) *Term {
	allc := crc.IsConst()
	for _, d := range data {
		if !d.IsConst() {
			allc = false
			break
		}
	}
	if allc {
		bs := make([]byte, len(data))
		for i, d := range data {
			bs[i] = byte(d.Val)
		}
		return ConstT(32, uint64(crc32.Update(uint32(crc.Val), castagnoli, bs)))
	}
	s := crc
	for _, d := range data {
		s = p.crcStep(s, d)
	}
	return s
}

func registerStd(e *Engine) {
	x := e.externals
	x["hash/crc32.MakeTable"] = func(p *Path, th *Thread, fr *frame, a []Value) Value {
		poly := a[0].(*Term)
		if !poly.IsConst() || uint32(poly.Val) != crc32.Castagnoli {
			engErr("crc32.MakeTable: only the Castagnoli polynomial is modelled")
		}
		if p.ghost == nil {
			p.ghost = map[string]Value{}
		}
		if t, ok := p.ghost["crctab"]; ok {
			return t
		}
		var cell Value = make(Array, 256)
		for i := range cell.(Array) {
			cell.(Array)[i] = ConstT(32, uint64(castagnoli[i]))
		}
		ptr := &cell
		p.ghost["crctab"] = ptr
		return ptr
	}
	x["hash/crc32.Checksum"] = func(p *Path, th *Thread, fr *frame, a []Value) Value {
		return p.crcUpdate(ConstT(32, 0), sliceTerms(a[0]))
	}
	x["hash/crc32.Update"] = func(p *Path, th *Thread, fr *frame, a []Value) Value {
		return p.crcUpdate(a[0].(*Term), sliceTerms(a[2]))
	}
	x["hash/crc32.update"] = x["hash/crc32.Update"]
	x["hash/crc32.New"] = func(p *Path, th *Thread, fr *frame, a []Value) Value {
		pkg := p.eng.prog.ImportedPackage("hash/crc32")
		t := pkg.Type("digest")
		var cell Value = Struct{ConstT(32, 0), a[0]}
		return Iface{T: types.NewPointer(t.Type()), V: &cell}
	}

	// xxhash / memhash: uninterpreted per length
	x["github.com/cespare/xxhash/v2.Sum64"] = func(p *Path, th *Thread, fr *frame, a []Value) Value {
		return hashUF("xxhash", 64, sliceTerms(a[0]))
	}
	x["github.com/cespare/xxhash/v2.Sum64String"] = func(p *Path, th *Thread, fr *frame, a []Value) Value {
		return hashUF("xxhash", 64, strTerms(a[0]))
	}
	x[nokv+"/kv.MemHash"] = func(p *Path, th *Thread, fr *frame, a []Value) Value {
		return hashUF("memhash", 64, sliceTerms(a[0]))
	}
	x[nokv+"/kv.MemHashString"] = func(p *Path, th *Thread, fr *frame, a []Value) Value {
		return hashUF("memhash", 64, strTerms(a[0]))
	}
	x[nokv+"/utils/cache.MemHash"] = x[nokv+"/kv.MemHash"]
	x[nokv+"/utils/cache.MemHashString"] = x[nokv+"/kv.MemHashString"]
	x[nokv+"/kv.BytesToString"] = func(p *Path, th *Thread, fr *frame, a []Value) Value {
		s := a[0].([]Value)
		if len(s) == 0 {
			return ""
		}
		return mkStr(sliceTerms(s))
	}
}

var _ *ssa.Function

// math/bits on symbolic operands: compact ite chains instead of the 256-entry
// table lookups of the pure-Go fallbacks.
func bitsLen(x *Term) *Term {
	// Len(x) = index of highest set bit + 1
	res := ConstT(64, 0)
	for i := 0; i < x.W; i++ {
		bit := Eq(Extract(x, i, i), ConstT(1, 1))
		res = Ite(bit, ConstT(64, uint64(i+1)), res)
	}
	return res
}

func bitsTrailingZeros(x *Term) *Term {
	res := ConstT(64, uint64(x.W))
	for i := x.W - 1; i >= 0; i-- {
		bit := Eq(Extract(x, i, i), ConstT(1, 1))
		res = Ite(bit, ConstT(64, uint64(i)), res)
	}
	return res
}

func registerBits(e *Engine) {
	x := e.externals
	for _, w := range []string{"", "8", "16", "32", "64"} {
		width := 64
		switch w {
		case "8":
			width = 8
		case "16":
			width = 16
		case "32":
			width = 32
		}
		x["math/bits.Len"+w] = func(p *Path, th *Thread, fr *frame, a []Value) Value { return bitsLen(a[0].(*Term)) }
		x["math/bits.LeadingZeros"+w] = func(p *Path, th *Thread, fr *frame, a []Value) Value {
			return Bin(OpSub, ConstT(64, uint64(width)), bitsLen(a[0].(*Term)))
		}
		x["math/bits.TrailingZeros"+w] = func(p *Path, th *Thread, fr *frame, a []Value) Value {
			return bitsTrailingZeros(a[0].(*Term))
		}
		x["math/bits.OnesCount"+w] = func(p *Path, th *Thread, fr *frame, a []Value) Value {
			t := a[0].(*Term)
			res := ConstT(64, 0)
			for i := 0; i < t.W; i++ {
				res = Bin(OpAdd, res, ZExt(Extract(t, i, i), 64))
			}
			return res
		}
	}
}

// encoding/json for flat structs of integer fields (reflection cannot be
// interpreted): Marshal is a fixed-width big-endian dump of the fields,
// Unmarshal its inverse. Only the round trip through a file matters to the
// kernels that use it (PD allocator checkpoint); the real JSON text is used by
// the native replay.
func init() {
	extraExternals = append(extraExternals, func(e *Engine) {
		x := e.externals
		x["encoding/json.Marshal"] = func(p *Path, th *Thread, fr *frame, a []Value) Value {
			it := a[0].(Iface)
			st, ok := it.V.(Struct)
			if !ok {
				engErr("json.Marshal: only flat integer structs are modelled (got %v)", it.T)
			}
			var out []Value
			for _, f := range st {
				t, ok := f.(*Term)
				if !ok || t.W == 0 || t.W%8 != 0 {
					engErr("json.Marshal: unsupported field in %v", it.T)
				}
				for b := t.W/8 - 1; b >= 0; b-- {
					out = append(out, Extract(t, b*8+7, b*8))
				}
			}
			return Tuple{out, Iface{}}
		}
		x["encoding/json.Unmarshal"] = func(p *Path, th *Thread, fr *frame, a []Value) Value {
			data := a[0].([]Value)
			it := a[1].(Iface)
			ptr, ok := it.V.(*Value)
			if !ok || ptr == nil {
				engErr("json.Unmarshal: target must be a struct pointer")
			}
			st, ok := (*ptr).(Struct)
			if !ok {
				engErr("json.Unmarshal: only flat integer structs are modelled")
			}
			pos := 0
			for i, f := range st {
				t := f.(*Term)
				n := t.W / 8
				if pos+n > len(data) {
					return p.eng.makeError(p, "json: unexpected end of input", nil)
				}
				v := data[pos].(*Term)
				for k := 1; k < n; k++ {
					v = Concat(v, data[pos+k].(*Term))
				}
				st[i] = v
				pos += n
			}
			if pos != len(data) {
				return p.eng.makeError(p, "json: trailing data", nil)
			}
			return Iface{}
		}
	})
}

// protobuf Marshal/Unmarshal (reflection based, not interpretable): an opaque
// token round trip. Marshal snapshots the message (deep copy) and returns a
// 5-byte token; Unmarshal of a token restores the snapshot. Code under test only
// frames, stores and forwards these bytes. The native replay uses real protobuf.
func deepCopyVal(v Value, memo map[*Value]*Value) Value {
	switch v := v.(type) {
	case Struct:
		c := make(Struct, len(v))
		for i := range v {
			c[i] = deepCopyVal(v[i], memo)
		}
		return c
	case Array:
		c := make(Array, len(v))
		for i := range v {
			c[i] = deepCopyVal(v[i], memo)
		}
		return c
	case []Value:
		if v == nil {
			return v
		}
		c := make([]Value, len(v))
		for i := range v {
			c[i] = deepCopyVal(v[i], memo)
		}
		return c
	case *Value:
		if v == nil {
			return v
		}
		if m, ok := memo[v]; ok {
			return m
		}
		n := new(Value)
		memo[v] = n
		*n = deepCopyVal(*v, memo)
		return n
	case Iface:
		return Iface{T: v.T, V: deepCopyVal(v.V, memo)}
	}
	return v
}

func init() {
	extraExternals = append(extraExternals, func(e *Engine) {
		x := e.externals
		marshal := func(p *Path, th *Thread, fr *frame, a []Value) Value {
			it := a[len(a)-1].(Iface)
			ptr, ok := it.V.(*Value)
			if !ok || ptr == nil {
				return Tuple{[]Value(nil), Iface{}}
			}
			if p.ghost == nil {
				p.ghost = map[string]Value{}
			}
			tab, _ := p.ghost["protomsgs"].([]Value)
			snap := deepCopyVal(*ptr, map[*Value]*Value{})
			tab = append(tab, Tuple{it.T, snap})
			p.ghost["protomsgs"] = tab
			id := len(tab) - 1
			tok := []Value{mkByte(0x50), mkByte(0x42), mkByte(byte(id >> 16)), mkByte(byte(id >> 8)), mkByte(byte(id))}
			return Tuple{tok, Iface{}}
		}
		x["google.golang.org/protobuf/proto.Clone"] = func(p *Path, th *Thread, fr *frame, a []Value) Value {
			it := a[0].(Iface)
			if it.T == nil {
				return it
			}
			return Iface{T: it.T, V: deepCopyVal(it.V, map[*Value]*Value{})}
		}
		x["google.golang.org/protobuf/proto.Marshal"] = marshal
		x["google.golang.org/protobuf/proto.Unmarshal"] = func(p *Path, th *Thread, fr *frame, a []Value) Value {
			bs, okb := concreteBytes(a[0])
			it := a[1].(Iface)
			ptr, _ := it.V.(*Value)
			if !okb || len(bs) != 5 || bs[0] != 0x50 || bs[1] != 0x42 || ptr == nil {
				return p.eng.makeError(p, "proto: cannot parse invalid wire-format data", nil)
			}
			tab, _ := p.ghost["protomsgs"].([]Value)
			id := int(bs[2])<<16 | int(bs[3])<<8 | int(bs[4])
			if id >= len(tab) {
				return p.eng.makeError(p, "proto: cannot parse invalid wire-format data", nil)
			}
			ent := tab[id].(Tuple)
			if !types.Identical(ent[0].(types.Type), it.T) {
				return p.eng.makeError(p, "proto: message type mismatch", nil)
			}
			store(ptr, deepCopyVal(ent[1], map[*Value]*Value{}))
			return Iface{}
		}
	})
}
