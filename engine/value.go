package main

// Value model of the symbolic interpreter.
//
//  *Term            every integer kind and bool (constant or symbolic)
//  float64/float32  concrete floats only
//  complex128       concrete only
//  string / *SymStr strings (concrete / concrete length with symbolic bytes)
//  *Value           pointers (to a cell); also unsafe.Pointer pass-through
//  []Value          slices (Go slice semantics give aliasing/cap for free)
//  Array, Struct    aggregates (value semantics: copied on load/store)
//  Iface            interface values
//  *Map             maps (insertion-ordered association list)
//  *Chan            channels (engine-scheduled)
//  *ssa.Function, *ssa.Builtin, *Closure   functions
//  Tuple            multi-value results
//  iter             range iterators

import (
	"fmt"
	"go/types"
	"strings"

	"golang.org/x/tools/go/ssa"
)

type Value = any

type Tuple []Value
type Array []Value
type Struct []Value

type Iface struct {
	T types.Type
	V Value
}

type Closure struct {
	Fn  *ssa.Function
	Env []Value
}

// SymStr is a string of concrete length whose bytes may be symbolic.
type SymStr struct {
	B []*Term // each W=8
}

type mapEntry struct {
	k, v Value
}

type Map struct {
	keyT    types.Type
	entries []*mapEntry
	index   map[any]*mapEntry // concrete-key fast path
	nsym    int               // number of entries with symbolic keys
}

type Chan struct {
	buf    []Value
	cap    int
	closed bool
	// rendezvous for unbuffered channels
	recvWaiting int
	id          int
	pending     *int
}

type iter interface {
	next(p *Path) Tuple
}

type bad struct{}

// engineError aborts the whole check as "machinery cannot decide" (exit 2).
type engineError struct{ msg string }

// targetPanic is a Go panic raised by the interpreted program.
type targetPanic struct {
	v   Value
	msg string // rendered message when known
}

// pathEnd unwinds all interpreter frames when a path is over.
type pathEnd struct{ reason string }

func engErr(format string, a ...any) {
	panic(engineError{fmt.Sprintf(format, a...)})
}

func intWidth(b *types.Basic) int {
	switch b.Kind() {
	case types.Bool, types.UntypedBool:
		return 0
	case types.Int8, types.Uint8:
		return 8
	case types.Int16, types.Uint16:
		return 16
	case types.Int32, types.Uint32, types.UntypedRune:
		return 32
	case types.Int, types.Uint, types.Int64, types.Uint64, types.Uintptr, types.UntypedInt:
		return 64
	}
	return -1
}

func isSigned(t types.Type) bool {
	b, ok := t.Underlying().(*types.Basic)
	if !ok {
		return false
	}
	return b.Info()&types.IsInteger != 0 && b.Info()&types.IsUnsigned == 0
}

func isIntegerType(t types.Type) bool {
	b, ok := t.Underlying().(*types.Basic)
	return ok && b.Info()&types.IsInteger != 0
}

func deref(t types.Type) types.Type {
	if p, ok := t.Underlying().(*types.Pointer); ok {
		return p.Elem()
	}
	panic(fmt.Sprintf("deref: not a pointer: %v", t))
}

func zero(t types.Type) Value {
	switch t := t.(type) {
	case *types.Basic:
		if t.Kind() == types.UntypedNil {
			panic("untyped nil has no zero value")
		}
		if t.Info()&types.IsUntyped != 0 {
			t = types.Default(t).(*types.Basic)
		}
		switch t.Kind() {
		case types.Bool:
			return FalseT
		case types.Float32:
			return float32(0)
		case types.Float64:
			return float64(0)
		case types.Complex64, types.Complex128:
			return complex128(0)
		case types.String:
			return ""
		case types.UnsafePointer:
			return (*Value)(nil)
		}
		if w := intWidth(t); w > 0 {
			return ConstT(w, 0)
		}
		panic(fmt.Sprintf("zero: basic %v", t))
	case *types.Pointer:
		return (*Value)(nil)
	case *types.Array:
		a := make(Array, t.Len())
		for i := range a {
			a[i] = zero(t.Elem())
		}
		return a
	case *types.Named, *types.Alias:
		return zero(t.Underlying())
	case *types.Interface:
		return Iface{}
	case *types.Slice:
		return []Value(nil)
	case *types.Struct:
		s := make(Struct, t.NumFields())
		for i := range s {
			s[i] = zero(t.Field(i).Type())
		}
		return s
	case *types.Tuple:
		if t.Len() == 1 {
			return zero(t.At(0).Type())
		}
		s := make(Tuple, t.Len())
		for i := range s {
			s[i] = zero(t.At(i).Type())
		}
		return s
	case *types.Chan:
		return (*Chan)(nil)
	case *types.Map:
		return (*Map)(nil)
	case *types.Signature:
		return (*ssa.Function)(nil)
	case *types.TypeParam:
		panic("zero of type parameter (generic body not instantiated)")
	}
	panic(fmt.Sprintf("zero: unexpected %T %v", t, t))
}

// copyVal gives value semantics to aggregates.
func copyVal(v Value) Value {
	switch v := v.(type) {
	case Struct:
		c := make(Struct, len(v))
		for i := range v {
			c[i] = copyVal(v[i])
		}
		return c
	case Array:
		c := make(Array, len(v))
		for i := range v {
			c[i] = copyVal(v[i])
		}
		return c
	}
	return v
}

func load(addr *Value) Value { return copyVal(*addr) }

// store writes v into *addr, keeping the identity of aggregate cells
// (pointers into fields/elements stay valid).
func store(addr *Value, v Value) {
	switch rhs := v.(type) {
	case Struct:
		lhs, ok := (*addr).(Struct)
		if !ok || len(lhs) != len(rhs) {
			*addr = copyVal(v)
			return
		}
		for i := range lhs {
			store(&lhs[i], rhs[i])
		}
	case Array:
		lhs, ok := (*addr).(Array)
		if !ok || len(lhs) != len(rhs) {
			*addr = copyVal(v)
			return
		}
		for i := range lhs {
			store(&lhs[i], rhs[i])
		}
	default:
		*addr = v
	}
}

func constInt(v Value) (int64, bool) {
	t, ok := v.(*Term)
	if !ok || !t.IsConst() {
		return 0, false
	}
	return t.SVal(), true
}

func mkInt(v int64) *Term   { return ConstT(64, uint64(v)) }
func mkByte(b byte) *Term   { return ConstT(8, uint64(b)) }
func mkBool(b bool) *Term   { return BoolT(b) }
func mkU64(v uint64) *Term  { return ConstT(64, v) }
func mkI32(v int32) *Term   { return ConstT(32, uint64(v)) }

// ---- strings ----

func strLen(v Value) int {
	switch s := v.(type) {
	case string:
		return len(s)
	case *SymStr:
		return len(s.B)
	}
	panic(fmt.Sprintf("strLen: %T", v))
}

func strAt(v Value, i int) *Term {
	switch s := v.(type) {
	case string:
		return mkByte(s[i])
	case *SymStr:
		return s.B[i]
	}
	panic("strAt")
}

func strTerms(v Value) []*Term {
	switch s := v.(type) {
	case string:
		out := make([]*Term, len(s))
		for i := 0; i < len(s); i++ {
			out[i] = mkByte(s[i])
		}
		return out
	case *SymStr:
		return s.B
	}
	panic(fmt.Sprintf("strTerms: %T", v))
}

// mkStr builds the canonical string value from byte terms.
func mkStr(b []*Term) Value {
	allc := true
	for _, t := range b {
		if !t.IsConst() {
			allc = false
			break
		}
	}
	if allc {
		var sb strings.Builder
		for _, t := range b {
			sb.WriteByte(byte(t.Val))
		}
		return sb.String()
	}
	c := make([]*Term, len(b))
	copy(c, b)
	return &SymStr{B: c}
}

func strEq(a, b Value) *Term {
	if sa, ok := a.(string); ok {
		if sb, ok := b.(string); ok {
			return BoolT(sa == sb)
		}
	}
	if strLen(a) != strLen(b) {
		return FalseT
	}
	ta, tb := strTerms(a), strTerms(b)
	conj := make([]*Term, len(ta))
	for i := range ta {
		conj[i] = Eq(ta[i], tb[i])
	}
	return And(conj...)
}

// bytesLess returns the term for lexicographic a < b over byte terms.
func bytesLess(a, b []*Term) *Term {
	// from the end: less_i = a[i]<b[i] || (a[i]==b[i] && less_{i+1})
	n := len(a)
	if len(b) < n {
		n = len(b)
	}
	res := BoolT(len(a) < len(b))
	for i := n - 1; i >= 0; i-- {
		res = Or(Cmp(OpUlt, a[i], b[i]), And(Eq(a[i], b[i]), res))
	}
	return res
}

// bytesCompare returns a 64-bit term in {-1,0,1}.
func bytesCompare(a, b []*Term) *Term {
	lt := bytesLess(a, b)
	gt := bytesLess(b, a)
	return Ite(lt, ConstT(64, ^uint64(0)), Ite(gt, ConstT(64, 1), ConstT(64, 0)))
}

func bytesEqTerm(a, b []*Term) *Term {
	if len(a) != len(b) {
		return FalseT
	}
	conj := make([]*Term, len(a))
	for i := range a {
		conj[i] = Eq(a[i], b[i])
	}
	return And(conj...)
}

func sliceTerms(v Value) []*Term {
	s := v.([]Value)
	out := make([]*Term, len(s))
	for i, e := range s {
		out[i] = e.(*Term)
	}
	return out
}

func termsToSlice(ts []*Term) []Value {
	out := make([]Value, len(ts))
	for i, t := range ts {
		out[i] = t
	}
	return out
}

func bytesToSlice(b []byte) []Value {
	out := make([]Value, len(b))
	for i, c := range b {
		out[i] = mkByte(c)
	}
	return out
}

// concreteBytes returns the Go bytes of a byte slice value if all concrete.
func concreteBytes(v Value) ([]byte, bool) {
	s, ok := v.([]Value)
	if !ok {
		return nil, false
	}
	out := make([]byte, len(s))
	for i, e := range s {
		t, ok := e.(*Term)
		if !ok || !t.IsConst() {
			return nil, false
		}
		out[i] = byte(t.Val)
	}
	return out, true
}

// ---- equality ----

// eqTerm returns the Bool term for Go's == on values of static type t.
func eqTerm(t types.Type, x, y Value) *Term {
	switch x := x.(type) {
	case *Term:
		return Eq(x, y.(*Term))
	case float64:
		return BoolT(x == y.(float64))
	case float32:
		return BoolT(x == y.(float32))
	case complex128:
		return BoolT(x == y.(complex128))
	case string, *SymStr:
		return strEq(x, y)
	case *Value:
		yp, ok := y.(*Value)
		if !ok {
			return BoolT(false)
		}
		return BoolT(x == yp)
	case *Chan:
		return BoolT(x == y.(*Chan))
	case *Map:
		return BoolT(x == y.(*Map))
	case Struct:
		ys := y.(Struct)
		st := t.Underlying().(*types.Struct)
		var conj []*Term
		for i := range x {
			if st.Field(i).Name() == "_" {
				continue
			}
			conj = append(conj, eqTerm(st.Field(i).Type(), x[i], ys[i]))
		}
		return And(conj...)
	case Array:
		ya := y.(Array)
		et := t.Underlying().(*types.Array).Elem()
		var conj []*Term
		for i := range x {
			conj = append(conj, eqTerm(et, x[i], ya[i]))
		}
		return And(conj...)
	case Iface:
		yi := y.(Iface)
		if x.T == nil || yi.T == nil {
			return BoolT(x.T == nil && yi.T == nil)
		}
		if !types.Identical(x.T, yi.T) {
			return FalseT
		}
		return eqTerm(x.T, x.V, yi.V)
	case *ssa.Function:
		if yf, ok := y.(*ssa.Function); ok {
			return BoolT(x == yf)
		}
		return FalseT
	case *Closure:
		if yc, ok := y.(*Closure); ok {
			return BoolT(x == yc)
		}
		return FalseT
	case []Value:
		// only slice == nil reaches here via eqnil
		engErr("comparing slices")
	}
	engErr("eqTerm: uncomparable %T (type %v)", x, t)
	return nil
}

// concreteKey returns a Go-comparable key for fully concrete map keys.
func concreteKey(v Value) (any, bool) {
	switch v := v.(type) {
	case *Term:
		if v.IsConst() {
			return [2]uint64{uint64(v.W), v.Val}, true
		}
		return nil, false
	case string:
		return v, true
	case *SymStr:
		return nil, false
	case float64, float32, *Value, *Chan, *Map:
		return v, true
	case Iface:
		if v.T == nil {
			return "nil-iface", true
		}
		k, ok := concreteKey(v.V)
		if !ok {
			return nil, false
		}
		return fmt.Sprintf("%s|%v", v.T.String(), k), true
	case Struct:
		parts := make([]string, len(v))
		for i, f := range v {
			k, ok := concreteKey(f)
			if !ok {
				return nil, false
			}
			parts[i] = fmt.Sprintf("%T:%v", k, k)
		}
		return "S{" + strings.Join(parts, ";") + "}", true
	case Array:
		parts := make([]string, len(v))
		for i, f := range v {
			k, ok := concreteKey(f)
			if !ok {
				return nil, false
			}
			parts[i] = fmt.Sprintf("%T:%v", k, k)
		}
		return "A{" + strings.Join(parts, ";") + "}", true
	}
	return nil, false
}

// ---- printing (diagnostics only) ----

func valString(v Value) string {
	var sb strings.Builder
	writeVal(&sb, v, 0)
	return sb.String()
}

func writeVal(sb *strings.Builder, v Value, d int) {
	if d > 4 {
		sb.WriteString("…")
		return
	}
	switch v := v.(type) {
	case nil:
		sb.WriteString("<nil>")
	case *Term:
		if v.IsConst() {
			if v.W == 0 {
				fmt.Fprintf(sb, "%v", v.Val == 1)
			} else {
				fmt.Fprintf(sb, "%d", v.Val)
			}
		} else {
			s := v.String()
			if len(s) > 80 {
				s = s[:80] + "…"
			}
			sb.WriteString("⟨" + s + "⟩")
		}
	case string:
		fmt.Fprintf(sb, "%q", v)
	case *SymStr:
		fmt.Fprintf(sb, "symstr[%d]", len(v.B))
	case Struct:
		sb.WriteString("{")
		for i, e := range v {
			if i > 0 {
				sb.WriteString(" ")
			}
			writeVal(sb, e, d+1)
		}
		sb.WriteString("}")
	case Array:
		sb.WriteString("[")
		for i, e := range v {
			if i > 0 {
				sb.WriteString(" ")
			}
			if i > 16 {
				sb.WriteString("…")
				break
			}
			writeVal(sb, e, d+1)
		}
		sb.WriteString("]")
	case []Value:
		sb.WriteString("[")
		for i, e := range v {
			if i > 0 {
				sb.WriteString(" ")
			}
			if i > 16 {
				sb.WriteString("…")
				break
			}
			writeVal(sb, e, d+1)
		}
		sb.WriteString("]")
	case Iface:
		if v.T == nil {
			sb.WriteString("nil")
		} else {
			fmt.Fprintf(sb, "(%s)", v.T)
			writeVal(sb, v.V, d+1)
		}
	case *Value:
		if v == nil {
			sb.WriteString("nilptr")
		} else {
			sb.WriteString("&")
			writeVal(sb, *v, d+1)
		}
	case Tuple:
		sb.WriteString("(")
		for i, e := range v {
			if i > 0 {
				sb.WriteString(", ")
			}
			writeVal(sb, e, d+1)
		}
		sb.WriteString(")")
	default:
		fmt.Fprintf(sb, "<%T>", v)
	}
}
