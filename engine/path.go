package main

// Path = one execution of the harness under a decision prefix.
// Forking is by re-execution: a fresh decision enqueues the alternative
// prefixes; a path that follows a prefix re-asserts its conditions without
// asking the solver again.

import (
	"fmt"
	"runtime/debug"
	"sort"
	"strings"
	"sync"

	"golang.org/x/tools/go/ssa"
)

type Outcome int

const (
	OutComplete   Outcome = iota // harness returned
	OutInfeasible                // an Assume cut the path
	OutPanic                     // uncaught target panic (reported as violation "panic")
	OutDeadlock
	OutIncomplete // unwinding / step limit reached on a feasible path
	OutEngineError
)

func (o Outcome) String() string {
	return [...]string{"complete", "infeasible", "panic", "deadlock", "incomplete", "engine-error"}[o]
}

type Config struct {
	Unwind        int   // symbolic decisions per branch instruction per frame
	MaxSteps      int64 // instructions per path
	MaxPaths      int
	MaxConcretize int // distinct values per concretisation
	Preempt       int // preemption bound
	TimeoutMs     int // per solver query
	Workers       int
	Trace         bool
	MaxDepth      int
}

type Violation struct {
	Assert   string            `json:"assert"`
	Finding  string            `json:"finding,omitempty"` // known-finding predicate that matched ("" = new)
	Msg      string            `json:"msg,omitempty"`
	Vars     map[string]uint64 `json:"vars"`
	Bytes    map[string][]int  `json:"bytes,omitempty"`
	Trace    []Dec             `json:"decisions"`
	Sched    []int             `json:"schedule,omitempty"` // running thread after every scheduling event
	PathCond string            `json:"path_condition_sample,omitempty"`
	Where    string            `json:"where,omitempty"`
}

// Dec is one recorded decision: K='b' boolean branch (V: 0/1 free, 2/3 forced),
// 'c' solver-free choice, 'v' concretised value.
type Dec struct {
	K byte
	V uint64
}

func withDec(tr []Dec, d Dec) []Dec { return append(append([]Dec{}, tr...), d) }

type finding struct {
	name string
	pred *Term
}

type Thread struct {
	id      int
	p       *Path
	resume  chan struct{}
	done    bool
	waiting func() bool
	started bool
	fn      Value
	args    []Value
	depth   int
	top     *frame
	spins   int
}

type Path struct {
	eng    *Engine
	sol    *Solver
	prefix []Dec
	trace  []Dec
	pc     []*Term
	pcSent int
	alts   [][]Dec

	globals map[*ssa.Global]*Value
	inited  map[*ssa.Package]bool

	inputs   []*Term // declared input variables in order
	inputSet map[string]*Term
	nameCnt  map[string]int
	byteVars map[string][]*Term

	findings []finding
	observes []string

	threads  []*Thread
	cur      *Thread
	preempts int
	over     bool
	outcome  Outcome
	reason   string
	doneCh   chan struct{}
	finOnce  sync.Once

	steps       int64
	queries     int
	asserts     int
	assertsHeld int
	maxUnwind   int
	allocBudget int64 // <0: off
	allocNote   string
	nextChanID  int
	ghost       map[string]Value
	solverUsed  bool
	violations  []*Violation
	fresh       bool // true once the path passed its prefix
	assertPrefer *Term // optional extra conjunct tried first when looking for a counterexample
	freeYield    bool  // the current yield is voluntary (sym.Yield): allowed even when the budget is used up
	sched        []int // thread that runs after each scheduling event (yield / block / exit), for native replay
}

func (p *Path) pos() int { return len(p.trace) }

func (p *Path) finish(o Outcome, reason string) {
	p.finOnce.Do(func() {
		p.outcome = o
		p.reason = reason
		p.over = true
		close(p.doneCh)
		for _, t := range p.threads {
			select {
			case t.resume <- struct{}{}:
			default:
			}
		}
	})
}

// endPath terminates the path from the running thread.
func (p *Path) endPath(o Outcome, reason string) {
	p.finish(o, reason)
	panic(pathEnd{reason})
}

func (p *Path) syncPC() {
	if !p.solverUsed {
		p.sol.Reset()
		p.solverUsed = true
	}
	for ; p.pcSent < len(p.pc); p.pcSent++ {
		p.sol.Assert(p.pc[p.pcSent])
	}
}

func (p *Path) addPC(c *Term) {
	if c.IsTrue() {
		return
	}
	p.pc = append(p.pc, c)
}

func (p *Path) check(extra ...*Term) SatResult {
	p.syncPC()
	p.queries++
	return p.sol.Check(extra...)
}

// decide forks on a Bool term.
func (p *Path) decide(c *Term) bool {
	if c.IsConst() {
		return c.Val != 0
	}
	i := p.pos()
	if i < len(p.prefix) {
		d := p.prefix[i]
		p.trace = append(p.trace, d)
		if d.K != 'b' {
			engErr("decision prefix mismatch at %d: %c is not a boolean decision", i, d.K)
		}
		switch d.V {
		case 1:
			p.addPC(c)
			return true
		case 0:
			p.addPC(Not(c))
			return false
		case 3:
			return true
		case 2:
			return false
		}
		engErr("decision prefix mismatch at %d: bad boolean decision %d", i, d.V)
	}
	p.fresh = true
	p.syncPC()
	p.queries += 2
	rt, rf := p.sol.CheckBoth(c)
	if rt == Unknown || rf == Unknown {
		// an undecided branch cannot be explored soundly (and every later query on
		// this path would time out as well): the path is incomplete, the run is not a pass
		p.eng.noteUnknownBranch()
		where := ""
		if p.cur != nil && p.cur.top != nil {
			where = posOf(p, p.cur.top.curInstr)
		}
		p.endPath(OutIncomplete, "solver unknown at a branch: "+where)
	}
	tOK, fOK := rt != Unsat, rf != Unsat
	switch {
	case tOK && fOK:
		p.alts = append(p.alts, withDec(p.trace, Dec{'b', 0}))
		p.trace = append(p.trace, Dec{'b', 1})
		p.addPC(c)
		return true
	case tOK:
		p.trace = append(p.trace, Dec{'b', 3})
		return true
	case fOK:
		p.trace = append(p.trace, Dec{'b', 2})
		return false
	}
	// both unsat: pc itself infeasible (can happen after an unknown)
	p.endPath(OutInfeasible, "path condition became unsatisfiable")
	return false
}

// choose forks n ways without involving the solver.
func (p *Path) choose(n int) int {
	if n <= 1 {
		return 0
	}
	i := p.pos()
	if i < len(p.prefix) {
		d := p.prefix[i]
		p.trace = append(p.trace, d)
		v := int(d.V)
		if d.K != 'c' || v < 0 || v >= n {
			engErr("decision prefix mismatch at %d: choice %d of %d", i, v, n)
		}
		return v
	}
	p.fresh = true
	for k := n - 1; k >= 1; k-- {
		p.alts = append(p.alts, withDec(p.trace, Dec{'c', uint64(k)}))
	}
	p.trace = append(p.trace, Dec{'c', 0})
	return 0
}

// concretize forks over every feasible value of t (up to MaxConcretize).
func (p *Path) concretize(t *Term, what string) uint64 {
	if t.IsConst() {
		return t.Val
	}
	i := p.pos()
	if i < len(p.prefix) {
		d := p.prefix[i]
		p.trace = append(p.trace, d)
		v := d.V
		if d.K != 'v' {
			engErr("decision prefix mismatch at %d: %c is not a concretisation", i, d.K)
		}
		p.addPC(Eq(t, ConstT(t.W, v)))
		return v
	}
	p.fresh = true
	p.syncPC()
	var vals []uint64
	var excl []*Term
	for {
		p.queries++
		res, vs := p.sol.CheckModel([]*Term{t}, excl...)
		if res == Unknown {
			p.endPath(OutIncomplete, "solver unknown while concretising "+what)
		}
		if res == Unsat {
			break
		}
		vals = append(vals, vs[0])
		excl = append(excl, Not(Eq(t, ConstT(t.W, vs[0]))))
		if len(vals) > p.eng.cfg.MaxConcretize {
			p.endPath(OutIncomplete, fmt.Sprintf("more than %d feasible values while concretising %s", p.eng.cfg.MaxConcretize, what))
		}
	}
	if len(vals) == 0 {
		p.endPath(OutInfeasible, "no feasible value")
	}
	sort.Slice(vals, func(a, b int) bool { return vals[a] < vals[b] })
	for k := len(vals) - 1; k >= 1; k-- {
		p.alts = append(p.alts, withDec(p.trace, Dec{'v', vals[k]}))
	}
	p.trace = append(p.trace, Dec{'v', vals[0]})
	p.addPC(Eq(t, ConstT(t.W, vals[0])))
	return vals[0]
}

// concInt concretises an integer value to a Go int64 (signed by width).
func (p *Path) concInt(v Value, what string) int64 {
	t := v.(*Term)
	if t.IsConst() {
		return t.SVal()
	}
	u := p.concretize(t, what)
	return sext(u, t.W)
}

func (p *Path) assume(c *Term) {
	if c.IsTrue() {
		return
	}
	if c.IsFalse() {
		p.endPath(OutInfeasible, "assume(false)")
	}
	if p.pos() < len(p.prefix) {
		// within the prefix the assumption was already found satisfiable
		p.addPC(c)
		return
	}
	r := p.check(c)
	if r == Unsat {
		p.endPath(OutInfeasible, "assumption unsatisfiable")
	}
	p.addPC(c)
}

// newVar declares a fresh input variable.
func (p *Path) newVar(name string, w int) *Term {
	name = sanitize(name)
	k := p.nameCnt[name]
	p.nameCnt[name] = k + 1
	full := name
	if k > 0 {
		full = fmt.Sprintf("%s.%d", name, k)
	}
	t := VarT(full, w)
	p.inputs = append(p.inputs, t)
	p.inputSet[full] = t
	return t
}

func sanitize(s string) string {
	var sb strings.Builder
	for _, c := range s {
		if c >= 'a' && c <= 'z' || c >= 'A' && c <= 'Z' || c >= '0' && c <= '9' || c == '_' || c == '.' {
			sb.WriteRune(c)
		} else {
			sb.WriteRune('_')
		}
	}
	if sb.Len() == 0 {
		return "v"
	}
	return sb.String()
}

// assertTerm checks pc ∧ ¬c, honouring known-finding predicates.
func (p *Path) assertTerm(c *Term, name string, where string) {
	p.asserts++
	if c.IsTrue() {
		p.assertsHeld++
		p.eng.noteAssert(name, true, true)
		return
	}
	neg := Not(c)
	// (a) new violations: ¬A ∧ ¬P1 ∧ … ∧ ¬Pn
	extra := []*Term{neg}
	for _, f := range p.findings {
		extra = append(extra, Not(f.pred))
	}
	held := true
	if p.eng.wantViolation(name, "") {
		p.syncPC()
		p.queries++
		res, vals := p.sol.CheckModel(p.inputs, extra...)
		if res == Sat && p.assertPrefer != nil {
			if r2, v2 := p.sol.CheckModel(p.inputs, append(append([]*Term{}, extra...), p.assertPrefer)...); r2 == Sat {
				vals = v2
			}
		}
		switch res {
		case Sat:
			held = false
			p.recordViolation(name, "", vals, where)
		case Unknown:
			held = false
			p.eng.noteInconclusive(fmt.Sprintf("assert %q: solver unknown (%s)", name, where))
		}
	} else {
		// this assertion already has a recorded counterexample: only decide
		// whether it holds on this path (no model needed)
		if p.check(extra...) != Unsat {
			held = false
		}
	}
	// (b) each known finding: ¬A ∧ Pi
	for _, f := range p.findings {
		if !p.eng.wantViolation(name, f.name) {
			continue
		}
		p.syncPC()
		p.queries++
		res, vals := p.sol.CheckModel(p.inputs, neg, f.pred)
		if res == Sat {
			p.recordViolation(name, f.name, vals, where)
		}
	}
	if held {
		p.assertsHeld++
	}
	p.eng.noteAssert(name, held, false)
	// continue under the assumption that the assertion holds
	if p.check(c) == Unsat {
		p.endPath(OutInfeasible, "assertion fails on every input of this path")
	}
	p.addPC(c)
}

func (p *Path) recordViolation(name, findingName string, vals []uint64, where string) {
	v := &Violation{Assert: name, Finding: findingName, Vars: map[string]uint64{}, Where: where}
	for i, in := range p.inputs {
		v.Vars[in.Name] = vals[i]
	}
	v.Bytes = map[string][]int{}
	for n, ts := range p.byteVars {
		bs := make([]int, len(ts))
		for i, t := range ts {
			bs[i] = int(v.Vars[t.Name])
		}
		v.Bytes[n] = bs
	}
	v.Trace = append([]Dec{}, p.trace...)
	v.Sched = append([]int{}, p.sched...)
	if len(p.pc) > 0 {
		s := p.pc[len(p.pc)-1].String()
		if len(s) > 300 {
			s = s[:300] + "…"
		}
		v.PathCond = s
	}
	p.violations = append(p.violations, v)
	p.eng.noteViolation(v)
}

// ---- threads ----

func (p *Path) newThread(fn Value, args []Value) *Thread {
	th := &Thread{id: len(p.threads), p: p, resume: make(chan struct{}, 1), fn: fn, args: args}
	p.threads = append(p.threads, th)
	go th.main()
	return th
}

func (th *Thread) main() {
	p := th.p
	defer func() {
		r := recover()
		switch r := r.(type) {
		case nil:
		case pathEnd:
			return
		case engineError:
			p.finish(OutEngineError, r.msg+"\n"+th.stack())
			return
		case targetPanic:
			msg := r.msg
			if msg == "" {
				msg = valString(r.v)
			}
			p.uncaughtPanic(th, msg)
			return
		default:
			p.finish(OutEngineError, fmt.Sprintf("interpreter crash: %v\n%s\n%s", r, th.stack(), debug.Stack()))
			return
		}
	}()
	<-th.resume
	if p.over {
		return
	}
	th.started = true
	p.call(th, nil, th.fn, th.args)
	th.done = true
	if th.id == 0 {
		p.finish(OutComplete, "")
		return
	}
	// hand the baton to somebody else
	p.threadExit(th)
}

func (th *Thread) stack() string {
	var sb strings.Builder
	for fr := th.top; fr != nil; fr = fr.caller {
		pos := ""
		if fr.curInstr != nil {
			pos = th.p.eng.prog.Fset.Position(fr.curInstr.Pos()).String()
		}
		fmt.Fprintf(&sb, "  at %s %s\n", fr.fn.String(), pos)
	}
	return sb.String()
}

func (p *Path) uncaughtPanic(th *Thread, msg string) {
	// An uncaught panic is a violation of the implicit "no panic" assertion
	// of the harness; report it with a model of the current path condition.
	if !p.over {
		where := th.stack()
		name := "no-panic"
		if p.eng.wantViolation(name, "") {
			func() {
				defer func() { recover() }()
				p.syncPC()
				res, vals := p.sol.CheckModel(p.inputs)
				if res == Sat {
					p.recordViolation(name, "", vals, where)
					p.violations[len(p.violations)-1].Msg = msg
				}
			}()
		}
		p.eng.noteAssert(name, false, false)
	}
	p.finish(OutPanic, msg)
}

func (p *Path) enabled(except *Thread) []*Thread {
	var en []*Thread
	for _, t := range p.threads {
		if t == except || t.done {
			continue
		}
		if t.waiting == nil || t.waiting() {
			en = append(en, t)
		}
	}
	return en
}

func (p *Path) switchTo(from, to *Thread) {
	p.cur = to
	to.resume <- struct{}{}
	<-from.resume
	if p.over {
		panic(pathEnd{"over"})
	}
	p.cur = from
}

// yield is called before every visible operation. Every call is one
// scheduling event (recorded even when no switch is possible, so that the
// native replay can count events one to one).
func (p *Path) yield(th *Thread) {
	if p.over {
		panic(pathEnd{"over"})
	}
	target := th
	if len(p.threads) > 1 && p.preempts < p.eng.cfg.Preempt {
		if others := p.enabled(th); len(others) > 0 {
			if k := p.choose(1 + len(others)); k > 0 {
				target = others[k-1]
			}
		}
	}
	p.sched = append(p.sched, target.id)
	if target != th {
		p.preempts++
		p.switchTo(th, target)
	}
}

// block parks th until cond() holds.
func (p *Path) block(th *Thread, cond func() bool) {
	for !cond() {
		th.waiting = cond
		others := p.enabled(th)
		if len(others) == 0 {
			th.waiting = nil
			var sb strings.Builder
			for _, t := range p.threads {
				if !t.done {
					fmt.Fprintf(&sb, "thread %d blocked:\n%s", t.id, t.stack())
				}
			}
			p.deadlock(sb.String())
		}
		k := 0
		if p.eng.cfg.Preempt >= 0 { // a negative bound = sequential mode: the lowest runnable thread continues
			k = p.choose(len(others))
		}
		p.sched = append(p.sched, others[k].id)
		p.switchTo(th, others[k])
		th.waiting = nil
	}
}

func (p *Path) deadlock(where string) {
	name := "no-deadlock"
	if p.eng.wantViolation(name, "") {
		p.syncPC()
		res, vals := p.sol.CheckModel(p.inputs)
		if res == Sat {
			p.recordViolation(name, "", vals, where)
		}
	}
	p.eng.noteAssert(name, false, false)
	p.endPath(OutDeadlock, "deadlock")
}

func (p *Path) threadExit(th *Thread) {
	others := p.enabled(th)
	if len(others) == 0 {
		// everybody else is blocked or done
		alive := false
		for _, t := range p.threads {
			if !t.done {
				alive = true
			}
		}
		if alive {
			var sb strings.Builder
			sb.WriteString("all remaining threads blocked:\n")
			for _, t := range p.threads {
				if !t.done {
					fmt.Fprintf(&sb, "thread %d blocked:\n%s", t.id, t.stack())
				}
			}
			func() {
				defer func() { recover() }()
				p.deadlock(sb.String())
			}()
		}
		return
	}
	defer func() { recover() }()
	k := 0
	if p.eng.cfg.Preempt >= 0 {
		k = p.choose(len(others))
	}
	p.sched = append(p.sched, others[k].id)
	p.cur = others[k]
	others[k].resume <- struct{}{}
}
