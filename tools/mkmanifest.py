#!/usr/bin/env python3
"""Regenerates /verif/MANIFEST.json from harness/<ID>/spec.json and not_applicable.json."""
import json, os, glob, sys
V = '/verif'
props = [json.loads(l) for l in open(f'{V}/properties.jsonl')]
ids = [p['id'] for p in props]
na = json.load(open(f'{V}/not_applicable.json')) if os.path.exists(f'{V}/not_applicable.json') else {}
checks = []
claimed = set()
for pid in ids:
    sp = f'{V}/harness/{pid}/spec.json'
    if not os.path.exists(sp) or pid in na:
        continue
    s = json.load(open(sp))
    if s.get('disabled'):
        continue
    claimed.add(pid)
    checks.append({
        "property_id": pid,
        "quick_cmd": f"/verif/bin/check {pid} --tier quick",
        "thorough_cmd": f"/verif/bin/check {pid} --tier thorough",
        "evidence_file": f"/verif/evidence/{pid}.json",
        "replay_cmd_template": f"/verif/bin/check {pid} --replay {{path}}",
        "engine": "gosym",
        "level_claimed": {
            "category": "model_checking",
            "text": s.get("level_text", "bounded symbolic execution of the real functions (go/ssa of /repo's working tree): operation, fault, crash-point and schedule choices are explored exhaustively by forking within the stated bounds, every branch and assertion over the symbolic data (bytes, keys, versions, timestamps, lengths, payloads) is decided by z3 for all values; a counterexample is replayed natively against the real build before it is reported. Nothing is claimed outside the bounds and kernels listed in the evidence file"),
            "design_ref": s.get("design_ref", "DESIGN.md §9.3 (results), §4 " + pid + " (plan)"),
        },
        "level_note": s.get("level_note", "; ".join(s.get("outside_claim", []) + s.get("stubs", []) + s.get("assumptions", [])) or "see evidence"),
        "technique": "symbolic execution of go/ssa + z3 (bounded, solver-decided)",
    })
not_app = []
for pid in ids:
    if pid in claimed:
        continue
    not_app.append({"property_id": pid, "reason": na.get(pid, "check not built yet in this session (no claim is made)")})
m = {
    "version": 1,
    "setup_cmd": "/verif/build.sh",
    "hooks": {
        "guard": "verif",
        "enable": "go build tag `verif` on overlay files only (-tags verif -overlay …); no hook file is committed in /repo",
        "baseline_off_cmd": "cd /repo && PATH=/opt/veriftools/go1.26.8/bin:$PATH GOFLAGS=-mod=mod GOTOOLCHAIN=local go test -vet=off -count=1 -timeout 25m ./...",
        "source_commits": [],
        "add_only": True,
    },
    "engines": [{
        "name": "gosym", "path": "/verif/engine",
        "serves_properties": sorted(claimed),
        "kind_free_text": "forking symbolic interpreter for go/ssa (re-execution by decision prefix), bit-vector terms, one z3 -in per worker, native replay of every counterexample through go test -overlay",
    }],
    "checks": checks,
    "not_applicable": not_app,
    "notes": "Exit codes of check: 0 held on everything explored (known findings printed as KNOWN-FINDING), 1 violation (VIOLATION line, natively replayed), 2 inconclusive / engine error / solver unknown / vacuous harness (never a pass). Quick tier: every entry must finish within its bounds, an unfinished entry is exit 2. Thorough tier: an entry that exhausts its time or path budget prints BUDGET-EXHAUSTED, the evidence file records exhaustive=false with the reason, and the run still exits 0 if nothing explored violated the property.",
}
json.dump(m, open(f'{V}/MANIFEST.json', 'w'), indent=1)
print("claimed:", sorted(claimed), "not_applicable:", len(not_app))
