#!/bin/bash
# usage: try_seeded.sh <ID> [worktree]   — confirm a seeded change and run the property's quick check against it.
# 1. in the scratch worktree: build, existing tests of the touched packages (patch applied, demo moved aside),
#    demo fails with the patch and passes without it
# 2. copy patch/demo/meta to /verif/seeded/<ID>/
# 3. apply the patch to /repo, run `check <ID> --tier quick`, undo it straight afterwards
set -u
ID=$1; WT=${2:-/tmp/wt-$ID}; NAME=${3:-$ID}
export PATH=/opt/veriftools/go1.26.8/bin:$PATH GOFLAGS=-mod=mod GOPROXY=off GOSUMDB=off GOTOOLCHAIN=local
S=$WT/SEEDED; OUT=/verif/seeded/$NAME; mkdir -p $OUT
[ -f $S/patch.diff ] || { echo "no patch in $S"; exit 2; }
cd $WT
DEMO=$(python3 -c "import json;print(json.load(open('$S/meta.json'))['demo_cmd'])")
PKGS=$(grep '^+++ b/' $S/patch.diff | sed 's#^+++ b/##' | xargs -n1 dirname | sort -u | sed 's#^#./#')
git checkout -q -- . 2>/dev/null; git apply $S/patch.diff || { echo "patch does not apply"; exit 2; }
echo "== build"; go build ./... && echo BUILD-OK
echo "== existing tests of touched packages (patch applied, demo aside)"
DEMOFILES=$(git status --short | grep '^??' | awk '{print $2}' | grep '_test.go$')
mkdir -p /tmp/demo-aside-$NAME; for f in $DEMOFILES; do mv $f /tmp/demo-aside-$NAME/$(echo $f | tr / _); done
go test -vet=off -count=1 $PKGS 2>&1 | tail -5 | tee $OUT/existing_tests.txt
for f in $DEMOFILES; do mv /tmp/demo-aside-$NAME/$(echo $f | tr / _) $f; done
echo "== demo with patch (must FAIL): $DEMO"
( eval "$DEMO" ) > $OUT/demo_with_patch.txt 2>&1; W=$?; tail -3 $OUT/demo_with_patch.txt; echo "exit=$W"
git apply -R $S/patch.diff
echo "== demo without patch (must PASS)"
( eval "$DEMO" ) > $OUT/demo_without_patch.txt 2>&1; WO=$?; tail -3 $OUT/demo_without_patch.txt; echo "exit=$WO"
git apply $S/patch.diff
cp $S/patch.diff $S/meta.json $OUT/; for f in $S/*_test.go; do cp $f $OUT/; done
echo "== check against the patched /repo"
cd /repo && git status --short | grep -v '^??' | head -1 | grep -q . && { echo "/repo not clean"; exit 2; }
git apply $S/patch.diff || exit 2
/verif/bin/check $ID --tier quick > $OUT/check_quick.txt 2>&1; C=$?
git -C /repo checkout -- .
grep -E "^VIOLATION|^KNOWN|^OK|ENGINE-MISMATCH|INCOMPLETE|broken|ENGINE-ERROR" $OUT/check_quick.txt | head -8; echo "check exit=$C"
python3 - <<PY
import json
m=json.load(open('$OUT/meta.json'))
m['confirmed']={'demo_fails_with_patch': $W!=0, 'demo_passes_without_patch': $WO==0, 'check_cmd': '/verif/bin/check $ID --tier quick', 'check_exit': $C, 'detected': $C==1}
json.dump(m,open('$OUT/meta.json','w'),indent=1)
PY
