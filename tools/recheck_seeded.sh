#!/bin/bash
# usage: recheck_seeded.sh <ID> [check-id] — apply /verif/seeded/<ID>/patch.diff to /repo, run the quick check, undo, update meta.json
ID=$1; CK=${2:-$ID}; OUT=/verif/seeded/$ID
cd /repo && git status --short | grep -v '^??' | head -1 | grep -q . && { echo "/repo not clean"; exit 2; }
git apply $OUT/patch.diff || exit 2
/verif/bin/check $CK --tier quick > $OUT/check_quick.txt 2>&1; C=$?
git -C /repo checkout -- .
grep -E "^VIOLATION|^KNOWN|^OK|ENGINE-MISMATCH|INCOMPLETE|broken|ENGINE-ERROR|VACUOUS" $OUT/check_quick.txt | cut -c1-300 | head -8; echo "check exit=$C"
python3 - <<PY
import json
m=json.load(open('$OUT/meta.json'))
c=m.setdefault('confirmed',{})
c.update({'check_cmd': '/verif/bin/check $CK --tier quick', 'check_exit': $C, 'detected': $C==1})
json.dump(m,open('$OUT/meta.json','w'),indent=1)
PY
