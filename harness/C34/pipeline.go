//go:build verif

package NoKV

import (
	"errors"

	sym "github.com/feichai0017/NoKV/internal/verifsym"
	"github.com/feichai0017/NoKV/utils"
)

// Concurrent plain writers, the commit worker, write throttling and Close on the
// real commit pipeline (sendToWriteCh, commit queue, ring buffer, batching,
// commit worker, request completion):
//  * every write call returns (no deadlock, also while throttled / closing);
//  * a write that returned nil was applied exactly once, with its value;
//  * a write that returned an error (throttled, too large, closed) was not applied.
func VerifC34Writers()       { c34Run(2, false, false) }
func VerifC34WritersClose()  { c34Run(2, true, false) }
func VerifC34ThrottleClose() { c34Run(1, true, true) }
func VerifC34Throttle()      { c34Run(1, false, true) }

func c34Run(nprod int, withClose, withThrottle bool) {
	// native replay: real goroutines; interleaving-dependent counterexamples are
	// confirmed by repeated runs with random delays at the instrumented points
	sym.FreeRun()
	db := VerifOpenPipelineDB(2, false)
	keys := []string{"k1", "k2", "k3"}
	errs := make([]error, 3)
	vals := make([][]byte, 3)
	returned := make([]bool, 3)
	if sym.Tier() > 0 && !withThrottle {
		nprod++
	}
	running := 0
	for i := 0; i < nprod; i++ {
		i := i
		vals[i] = sym.Bytes("val", 1)
		sym.Ghost(func() { running++ })
		sym.Go(func() {
			errs[i] = db.Set([]byte(keys[i]), vals[i])
			returned[i] = true
			sym.Ghost(func() { running-- })
		})
	}
	if withThrottle {
		sym.Ghost(func() { running++ })
		sym.Go(func() {
			db.applyThrottle(true)
			sym.Yield()
			db.applyThrottle(false)
			sym.Ghost(func() { running-- })
		})
	}
	closed := false
	if withClose {
		sym.Ghost(func() { running++ })
		sym.Go(func() {
			VerifClosePipeline(db)
			closed = true
			sym.Ghost(func() { running-- })
		})
	}
	// (the commit worker keeps running until the pipeline is closed)
	sym.WaitUntil(func() bool { return running == 0 })
	for i := 0; i < nprod; i++ {
		sym.Assert(returned[i], "every-write-call-returns")
	}
	if !withClose {
		// no concurrent Close: a write can only fail for the listed reasons, none of which applies here
		for i := 0; i < nprod; i++ {
			sym.Assert(errs[i] == nil, "write-succeeds-without-close")
		}
	}
	if sym.Symbolic() {
		if !closed {
			VerifClosePipeline(db)
		}
		for i := 0; i < nprod; i++ {
			n := VerifApplied[keys[i]]
			if errs[i] == nil {
				sym.Assert(n == 1, "acknowledged-write-applied-exactly-once")
			} else {
				sym.Assert(errors.Is(errs[i], utils.ErrBlockedWrites) || errors.Is(errs[i], utils.ErrTxnTooBig), "refusal-is-one-of-the-listed-errors")
				sym.Assert(n == 0, "refused-write-has-no-effect")
			}
		}
	} else if !closed {
		// native replay: observe through reads
		for i := 0; i < nprod; i++ {
			e, err := db.Get([]byte(keys[i]))
			if errs[i] == nil {
				sym.Assert(err == nil && sym.BytesEq(e.Value, vals[i]), "acknowledged-write-applied-exactly-once")
			} else {
				sym.Assert(err != nil, "refused-write-has-no-effect")
			}
		}
		VerifClosePipeline(db)
	}
	sym.Reached("end")
}
