//go:build verif

package engine

import (
	"github.com/feichai0017/NoKV/internal/verifstubs/memfs"
	sym "github.com/feichai0017/NoKV/internal/verifsym"
	"github.com/feichai0017/NoKV/manifest"
	myraft "github.com/feichai0017/NoKV/raft"
	"github.com/feichai0017/NoKV/wal"
)

const c21Dir = "/db"

type c21Node struct {
	w  *wal.Manager
	m  *manifest.Manager
	ws *WALStorage
}

func c21Open(fs *memfs.FS) (*c21Node, error) {
	// the shared WAL exactly as NoKV.Open creates it
	w, err := wal.Open(wal.Config{Dir: c21Dir, SyncOnWrite: false, FS: fs, BufferSize: 4096})
	if err != nil {
		return nil, err
	}
	m, err := manifest.Open(c21Dir, fs)
	if err != nil {
		return nil, err
	}
	ws, err := OpenWALStorage(WALStorageConfig{GroupID: 7, WAL: w, Manifest: m})
	if err != nil {
		return nil, err
	}
	return &c21Node{w: w, m: m, ws: ws}, nil
}

// Hard state and log entries that the storage layer reported as persisted
// (after which the peer sends its messages) are recovered exactly after a
// process crash: whatever is still in user-space buffers is lost.
func VerifC21PersistedStateSurvives() {
	fs := memfs.New()
	n, err := c21Open(fs)
	sym.Assert(err == nil, "open-ok")
	nops := 2
	if sym.Tier() > 0 {
		nops = 3
	}
	// model of what raft believes is durable
	var hs myraft.HardState
	var log []myraft.Entry // index i+1 at position i
	term := uint64(1)
	ops := sym.Int("nops", 1, nops)
	for i := 0; i < ops; i++ {
		switch sym.Int("op", 0, 2) {
		case 0: // hard state: term and vote only move forward (raft's own invariant)
			term += uint64(sym.Int("term_step", 0, 1))
			st := myraft.HardState{Term: term, Vote: uint64(sym.SymInt("vote", 0, 3)), Commit: uint64(len(log))}
			if st.Term == hs.Term && hs.Vote != 0 {
				st.Vote = hs.Vote // one vote per term
			}
			if myraft.IsEmptyHardState(st) {
				continue
			}
			sym.Assert(n.ws.SetHardState(st) == nil, "set-hard-state-ok")
			hs = st
		case 1: // append one entry at the end
			e := myraft.Entry{Index: uint64(len(log) + 1), Term: term, Data: sym.Bytes("data", 1)}
			sym.Assert(n.ws.Append([]myraft.Entry{e}) == nil, "append-ok")
			log = append(log, e)
		default: // a new leader overwrites the last entry (conflict), if any
			if len(log) == 0 {
				continue
			}
			term++
			e := myraft.Entry{Index: uint64(len(log)), Term: term, Data: sym.Bytes("data", 1)}
			sym.Assert(n.ws.Append([]myraft.Entry{e}) == nil, "append-ok")
			log[len(log)-1] = e
		}
	}
	// the peer has acted on this state (messages sent). The process dies now:
	// nothing is closed or flushed; what the file system holds is what survives.
	sym.Assert(wal.VerifyDir(c21Dir, fs) == nil, "verify-ok")
	n2, err := c21Open(fs)
	sym.Assert(err == nil, "reopen-ok")
	if err != nil {
		return
	}
	got, _, err := n2.ws.InitialState()
	sym.Assert(err == nil, "initial-state-ok")
	sym.Assert(got.Term == hs.Term && got.Vote == hs.Vote, "term-and-vote-recovered")
	sym.Assert(got.Term >= hs.Term, "term-never-goes-backwards")
	last, err := n2.ws.LastIndex()
	sym.Assert(err == nil && last == uint64(len(log)), "log-length-recovered")
	if err == nil && last == uint64(len(log)) && len(log) > 0 {
		ents, err := n2.ws.Entries(1, last+1, 1<<20)
		sym.Assert(err == nil && len(ents) == len(log), "entries-readable")
		if err == nil && len(ents) == len(log) {
			for i := range log {
				sym.Assert(ents[i].Index == log[i].Index && ents[i].Term == log[i].Term && sym.BytesEq(ents[i].Data, log[i].Data), "entries-recovered-later-overwrite-wins")
			}
		}
	}
	sym.Reached("end")
}
