//go:build verif

package NoKV

import (
	"os"

	sym "github.com/feichai0017/NoKV/internal/verifsym"
	"github.com/feichai0017/NoKV/kv"
)

var c06Pending bool

var c06Keys = []string{"a", "ab", "b"}

type c06Ver struct {
	commit  int // index of the committing transaction (0 = oldest); 1000 = the reader's own pending write
	value   []byte
	deleted bool
	expired bool
}

// the model: per key the list of versions, oldest first
type c06Model map[string][]c06Ver

func c06Op(tag string, nkeys int) (key string, v c06Ver) {
	key = c06Keys[sym.Int(tag+"_key", 0, nkeys-1)]
	switch sym.Int(tag+"_op", 0, 2) {
	case 0:
		v.value = sym.Bytes(tag+"_val", 1)
	case 1:
		v.deleted = true
	default:
		v.value = []byte{'x'}
		v.expired = true
	}
	return
}

func c06Apply(txn *Txn, key string, v c06Ver) {
	if v.deleted {
		sym.Assert(txn.Delete([]byte(key)) == nil, "write-ok")
		return
	}
	e := kv.NewEntry([]byte(key), v.value)
	if v.expired {
		e.ExpiresAt = 1 // long ago
	}
	sym.Assert(txn.SetEntry(e) == nil, "write-ok")
}

func c06Live(v c06Ver) bool { return !v.deleted && !v.expired }

type c06Row struct {
	key   string
	value []byte
}

// expected rows of a scan (non-AllVersions: the newest visible version of each
// key if it is live; AllVersions: every live visible version, newest first)
func c06Expect(m c06Model, visible int, opt IteratorOptions, seek string) []c06Row {
	var keys []string
	for _, k := range c06Keys {
		keys = append(keys, k)
	}
	if opt.Reverse {
		for i, j := 0, len(keys)-1; i < j; i, j = i+1, j-1 {
			keys[i], keys[j] = keys[j], keys[i]
		}
	}
	var rows []c06Row
	for _, k := range keys {
		if len(opt.Prefix) > 0 && (len(k) < len(opt.Prefix) || k[:len(opt.Prefix)] != string(opt.Prefix)) {
			continue
		}
		if len(opt.LowerBound) > 0 && k < string(opt.LowerBound) {
			continue
		}
		if len(opt.UpperBound) > 0 && k >= string(opt.UpperBound) {
			continue
		}
		if seek != "" {
			if !opt.Reverse && k < seek {
				continue
			}
			if opt.Reverse && k > seek {
				continue
			}
		}
		var vis []c06Ver
		for _, v := range m[k] {
			if v.commit <= visible || v.commit == 1000 {
				vis = append(vis, v)
			}
		}
		if len(vis) == 0 {
			continue
		}
		if !opt.AllVersions {
			if newest := vis[len(vis)-1]; c06Live(newest) {
				rows = append(rows, c06Row{k, newest.value})
			}
			continue
		}
		for i := len(vis) - 1; i >= 0; i-- {
			if c06Live(vis[i]) {
				rows = append(rows, c06Row{k, vis[i].value})
			}
		}
	}
	return rows
}

// Transaction iterators return exactly the live snapshot in order.
func VerifC06TxnIterator() {
	thorough := sym.Tier() > 0
	db := VerifOpenTxnModelDB(true)
	if !sym.Symbolic() {
		defer func() { dir := db.opt.WorkDir; db.Close(); os.RemoveAll(dir) }()
	}
	nkeys := 2
	ncommits := 2
	if thorough {
		nkeys, ncommits = 3, 3
	}
	m := c06Model{}
	n := sym.Int("ncommits", 1, ncommits)
	readerAfter := sym.Int("reader_after", 0, n) // the reader begins after this many commits
	var reader *Txn
	begin := func() {
		reader = db.NewTransaction(true)
	}
	for i := 0; i < n; i++ {
		if readerAfter == i {
			begin()
		}
		key, v := c06Op("c", nkeys)
		v.commit = i + 1
		err := db.Update(func(txn *Txn) error { c06Apply(txn, key, v); return nil })
		sym.Assert(err == nil, "commit-ok")
		m[key] = append(m[key], v)
	}
	if readerAfter == n {
		begin()
	}
	defer reader.Discard()
	// optionally one pending write of the reader itself
	if sym.Int("pending", 0, 1) == 1 {
		key, v := c06Op("p", nkeys)
		v.commit = 1000
		c06Apply(reader, key, v)
		m[key] = append(m[key], v)
		c06Pending = true
	}
	opt := IteratorOptions{Reverse: sym.Int("reverse", 0, 1) == 1, AllVersions: sym.Int("all_versions", 0, 1) == 1}
	if thorough {
		if sym.Int("prefix", 0, 1) == 1 {
			opt.Prefix = []byte("a")
		}
		switch sym.Int("bounds", 0, 2) {
		case 1:
			opt.LowerBound = []byte("ab")
		case 2:
			opt.UpperBound = []byte("b")
		}
	}
	seek := []string{"", "a", "ab", "b"}[sym.Int("seek", 0, nkeys)]
	// known findings (see known_findings.txt)
	sym.Finding("ReverseScan", opt.Reverse)
	sym.Finding("PendingWriteInAllVersionsScan", opt.AllVersions && c06Pending && !opt.Reverse)

	want := c06Expect(m, readerAfter, opt, seek)
	it := reader.NewIterator(opt)
	if seek != "" {
		it.Seek([]byte(seek))
	} else {
		it.Rewind()
	}
	var got []c06Row
	for ; it.Valid() && len(got) < 8; it.Next() {
		e := it.Item().Entry()
		got = append(got, c06Row{string(e.Key), append([]byte{}, e.Value...)})
	}
	it.Close()
	sym.Assert(len(got) == len(want), "scan-yields-exactly-the-live-snapshot-count")
	if len(got) == len(want) {
		for i := range got {
			sym.Assert(got[i].key == want[i].key, "scan-keys-in-order")
			sym.Assert(sym.BytesEq(got[i].value, want[i].value), "scan-value-is-newest-visible-version")
		}
	}
	// each value equals a point read of the same key (newest visible version)
	if !opt.AllVersions {
		for _, r := range got {
			item, err := reader.Get([]byte(r.key))
			sym.Assert(err == nil && sym.BytesEq(item.Entry().Value, r.value), "scan-value-equals-point-read")
		}
	}
	sym.Reached("end")
}
