//go:build verif

package manifest

import (
	"github.com/feichai0017/NoKV/internal/verifstubs/memfs"
	sym "github.com/feichai0017/NoKV/internal/verifsym"
)

const c15Dir = "/db"

var c15BadUpdate bool

func c15Small(name string, hi int) uint64 { return uint64(sym.SymInt(name, 0, hi)) }

func c15Key(name string) []byte {
	n := sym.Int(name+"_len", 0, 1)
	if n == 0 {
		return nil
	}
	return sym.Bytes(name, n)
}

// c15Edit draws one edit of symbolic type with symbolic field values from small
// domains (so that ids collide); all numbers are one-byte varints (the codec's
// full ranges are C16's subject).
func c15Edit() Edit {
	switch EditType(sym.Int("etype", 0, 7)) {
	case EditAddFile:
		return Edit{Type: EditAddFile, File: &FileMeta{Level: int(c15Small("level", 1)), FileID: c15Small("fid", 2), Size: c15Small("size", 100),
			Smallest: c15Key("smallest"), Largest: c15Key("largest"), CreatedAt: c15Small("created", 100), ValueSize: c15Small("vsize", 100), Ingest: sym.Bool("ingest")}}
	case EditDeleteFile:
		return Edit{Type: EditDeleteFile, File: &FileMeta{Level: int(c15Small("level", 1)), FileID: c15Small("fid", 2)}}
	case EditLogPointer:
		return Edit{Type: EditLogPointer, LogSeg: uint32(c15Small("logseg", 100)), LogOffset: c15Small("logoff", 100)}
	case EditValueLogHead:
		return Edit{Type: EditValueLogHead, ValueLog: &ValueLogMeta{Bucket: uint32(c15Small("bucket", 1)), FileID: uint32(c15Small("vfid", 2)), Offset: c15Small("voff", 100), Valid: true}}
	case EditDeleteValueLog:
		return Edit{Type: EditDeleteValueLog, ValueLog: &ValueLogMeta{Bucket: uint32(c15Small("bucket", 1)), FileID: uint32(c15Small("vfid", 2))}}
	case EditUpdateValueLog:
		valid := sym.Bool("valid")
		off := c15Small("voff", 100)
		// an invalidated segment carries no offset (what vlog.go passes: it only ever
		// restores a previously valid meta); see DESIGN.md C15
		c15BadUpdate = sym.Or(c15BadUpdate, sym.And(!valid, off != 0))
		sym.Finding("UpdateInvalidWithOffset", c15BadUpdate)
		return Edit{Type: EditUpdateValueLog, ValueLog: &ValueLogMeta{Bucket: uint32(c15Small("bucket", 1)), FileID: uint32(c15Small("vfid", 2)), Offset: off, Valid: valid}}
	case EditRaftPointer:
		return Edit{Type: EditRaftPointer, Raft: &RaftLogPointer{GroupID: c15Small("group", 2), Segment: uint32(c15Small("rseg", 100)), Offset: c15Small("roff", 100),
			AppliedIndex: c15Small("ai", 100), AppliedTerm: c15Small("at", 100), Committed: c15Small("cm", 100), SnapshotIndex: c15Small("si", 100),
			SnapshotTerm: c15Small("st", 100), TruncatedIndex: c15Small("ti", 100), TruncatedTerm: c15Small("tt", 100), SegmentIndex: c15Small("sgi", 100), TruncatedOffset: c15Small("to", 100)}}
	default:
		if sym.Int("rdelete", 0, 1) == 1 {
			return Edit{Type: EditRegion, Region: &RegionEdit{Meta: RegionMeta{ID: c15Small("rid", 2)}, Delete: true}}
		}
		meta := RegionMeta{ID: c15Small("rid", 2), StartKey: c15Key("rstart"), EndKey: c15Key("rend"),
			Epoch: RegionEpoch{Version: c15Small("ever", 100), ConfVersion: c15Small("econf", 100)}, State: RegionState(c15Small("rstate", 3))}
		if sym.Int("npeers", 0, 1) == 1 {
			meta.Peers = []PeerMeta{{StoreID: c15Small("pstore", 100), PeerID: c15Small("ppeer", 100)}}
		}
		return Edit{Type: EditRegion, Region: &RegionEdit{Meta: meta}}
	}
}

func c15FileEq(a, b FileMeta) bool {
	return sym.And(sym.And(sym.And(a.Level == b.Level, a.FileID == b.FileID), sym.And(a.Size == b.Size, a.CreatedAt == b.CreatedAt)),
		sym.And(sym.And(a.ValueSize == b.ValueSize, a.Ingest == b.Ingest), sym.And(sym.BytesEq(a.Smallest, b.Smallest), sym.BytesEq(a.Largest, b.Largest))))
}

// c15LevelsEq compares levels as multisets per level (empty level == absent level).
func c15LevelsEq(a, b map[int][]FileMeta) bool {
	sub := func(x, y map[int][]FileMeta) bool {
		ok := true
		for lvl, files := range x {
			other := y[lvl]
			if len(files) != len(other) {
				return false
			}
			used := make([]bool, len(other))
			for _, f := range files {
				found := false
				for j, g := range other {
					if !used[j] && c15FileEq(f, g) { // forks; at most 3 files
						used[j] = true
						found = true
						break
					}
				}
				if !found {
					ok = false
				}
			}
		}
		return ok
	}
	return sub(a, b) && sub(b, a)
}

func c15RegionEq(a, b RegionMeta) bool {
	eq := sym.And(sym.And(a.ID == b.ID, a.State == b.State), sym.And(a.Epoch == b.Epoch, sym.And(sym.BytesEq(a.StartKey, b.StartKey), sym.BytesEq(a.EndKey, b.EndKey))))
	if len(a.Peers) != len(b.Peers) {
		return false
	}
	for i := range a.Peers {
		eq = sym.And(eq, a.Peers[i] == b.Peers[i])
	}
	return eq
}

// c15Same asserts (component by component) that two versions are equal.
func c15Same(a, b Version, tag string) {
	sym.Assert(c15VersionEq(a, b, tag), tag)
}

func c15VersionEq(a, b Version, tag string) bool {
	ok := sym.And(a.LogSegment == b.LogSegment, a.LogOffset == b.LogOffset)
	if !c15LevelsEq(a.Levels, b.Levels) {
		return false
	}
	if len(a.ValueLogs) != len(b.ValueLogs) || len(a.ValueLogHead) != len(b.ValueLogHead) || len(a.RaftPointers) != len(b.RaftPointers) || len(a.Regions) != len(b.Regions) {
		return false
	}
	for id, m := range a.ValueLogs {
		o, present := b.ValueLogs[id]
		if !present {
			return false
		}
		ok = sym.And(ok, m == o)
	}
	for id, m := range a.ValueLogHead {
		o, present := b.ValueLogHead[id]
		if !present {
			return false
		}
		ok = sym.And(ok, m == o)
	}
	for id, m := range a.RaftPointers {
		o, present := b.RaftPointers[id]
		if !present {
			return false
		}
		ok = sym.And(ok, m == o)
	}
	for id, m := range a.Regions {
		o, present := b.Regions[id]
		if !present {
			return false
		}
		ok = sym.And(ok, c15RegionEq(m, o))
	}
	return ok
}

func c15Reload(fs *memfs.FS) (Version, bool) {
	if err := Verify(c15Dir, fs); err != nil {
		sym.Assert(false, "verify-ok")
		return Version{}, false
	}
	m, err := Open(c15Dir, fs)
	sym.Assert(err == nil, "reopen-ok")
	if err != nil {
		return Version{}, false
	}
	v := m.Current()
	m.Close()
	return v, true
}

func c15N() int {
	if sym.Tier() > 0 {
		return 3
	}
	return 2
}

// Reload equals memory after any sequence of edits and rewrites.
func VerifC15ReloadEqualsMemory() {
	fs := memfs.New()
	m, err := Open(c15Dir, fs)
	sym.Assert(err == nil, "open-ok")
	switch sym.Int("rewrite_mode", 0, 2) {
	case 1:
		m.SetRewriteThreshold(1) // automatic rewrite after every edit
	case 2:
		m.SetRewriteThreshold(0) // never
	}
	n := sym.Int("n", 1, c15N())
	for i := 0; i < n; i++ {
		e := c15Edit()
		sym.Assert(m.LogEdit(e) == nil, "logedit-ok")
		if sym.Int("explicit_rewrite", 0, 1) == 1 {
			sym.Assert(m.Rewrite() == nil, "rewrite-ok")
		}
	}
	mem := m.Current()
	sym.Assert(m.Close() == nil, "close-ok")
	disk, ok := c15Reload(fs)
	if ok {
		c15Same(mem, disk, "reload-equals-memory")
		// and once more through a rewrite of the reloaded state
		m2, err := Open(c15Dir, fs)
		sym.Assert(err == nil, "reopen2-ok")
		sym.Assert(m2.Rewrite() == nil, "rewrite2-ok")
		m2.Close()
		if disk2, ok := c15Reload(fs); ok {
			c15Same(mem, disk2, "reload-after-rewrite-equals-memory")
		}
	}
	sym.Reached("end")
}

// A crash at any point during an edit or a rewrite leaves a directory that
// opens to the state after a prefix of the edits that includes every
// acknowledged edit.
func VerifC15CrashPrefix() {
	maxN := 1
	if sym.Tier() > 0 {
		maxN = 2
	}
	c15Crash(memfs.CrashByte, maxN)
}

// Same with crashes before every file-system effect only (no byte cuts), one
// more edit.
func VerifC15CrashPrefixEffects() {
	maxN := 2
	if sym.Tier() > 0 {
		maxN = 3
	}
	c15Crash(memfs.CrashEffect, maxN)
}

func c15Crash(mode, maxN int) {
	fs := memfs.New()
	shadowFS := memfs.New()
	m, err := Open(c15Dir, fs)
	sym.Assert(err == nil, "open-ok")
	shadow, err := Open(c15Dir, shadowFS)
	sym.Assert(err == nil, "open-ok")
	shadow.SetRewriteThreshold(0)
	auto := sym.Int("auto_rewrite", 0, 1) == 1
	if auto {
		m.SetRewriteThreshold(1)
	}
	n := sym.Int("n", 1, maxN)
	snaps := []Version{shadow.Current()}
	acked := 0
	fs.Mode = mode
	crashed := memfs.Run(fs, func() {
		for i := 0; i < n; i++ {
			e := c15Edit()
			sym.Assert(shadow.LogEdit(e) == nil, "shadow-ok")
			snaps = append(snaps, shadow.Current())
			if m.LogEdit(e) == nil {
				acked = i + 1
			}
			if !auto && sym.Int("explicit_rewrite", 0, 1) == 1 {
				m.Rewrite()
			}
		}
	})
	_ = crashed
	fs.Reboot()
	disk, ok := c15Reload(fs)
	if !ok {
		return
	}
	match := false
	for k := acked; k < len(snaps); k++ {
		if c15VersionEq(snaps[k], disk, "") {
			match = true
			break
		}
	}
	sym.Assert(match, "crash-reload-is-acked-prefix")
	sym.Reached("end")
}
