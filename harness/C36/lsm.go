//go:build verif

package lsm

import (
	"fmt"

	"github.com/feichai0017/NoKV/internal/verifstubs/memfs"
	sym "github.com/feichai0017/NoKV/internal/verifsym"
	"github.com/feichai0017/NoKV/kv"
	"github.com/feichai0017/NoKV/manifest"
	"github.com/feichai0017/NoKV/wal"
)

const c36Dir = "/db"

type c36State struct {
	fs     *memfs.FS
	w      *wal.Manager
	nseg   int
	hasLSM [4]bool    // segment -> holds LSM entry records
	hasG   [4][3]bool // segment -> group -> holds raft records of the group
	ptrs   map[uint64]manifest.RaftLogPointer
	trunc  [3]int // group -> segment of its truncation point (0 = nothing truncated yet)
	last   [3]int // group -> last segment holding its records
	// LSM entries in segments <= flushed are contained in installed tables
	flushed int
}

// c36Build creates 1..3 WAL segments through the real manager; every segment
// holds any subset of {LSM entries, raft records of group 1, of group 2}.
func c36Build() *c36State {
	st := &c36State{fs: memfs.New(), ptrs: map[uint64]manifest.RaftLogPointer{}}
	w, err := wal.Open(wal.Config{Dir: c36Dir, FS: st.fs, BufferSize: 64})
	sym.Assert(err == nil, "wal-open")
	st.w = w
	st.nseg = sym.Int("nseg", 1, 3)
	for s := 1; s <= st.nseg; s++ {
		if s > 1 {
			sym.Assert(w.Rotate() == nil, "rotate-ok")
		}
		content := sym.Int("content", 0, 7)
		if content&1 != 0 {
			st.hasLSM[s] = true
			_, err := w.Append([]byte{1})
			sym.Assert(err == nil, "append-ok")
		}
		for g := 1; g <= 2; g++ {
			if content&(1<<g) != 0 {
				st.hasG[s][g] = true
				st.last[g] = s
				_, err := w.AppendRecords(wal.Record{Type: wal.RecordTypeRaftEntry, Payload: []byte{byte(g)}})
				sym.Assert(err == nil, "append-ok")
			}
		}
	}
	sym.Assert(w.Sync() == nil, "sync-ok")
	for g := 1; g <= 2; g++ {
		if st.last[g] == 0 {
			continue
		}
		// the group's pointer: Segment = segment of its latest record, SegmentIndex =
		// segment of its truncation point (0 until the first log compaction)
		st.trunc[g] = sym.Int("trunc_seg", 0, st.last[g])
		st.ptrs[uint64(g)] = manifest.RaftLogPointer{GroupID: uint64(g), Segment: uint32(st.last[g]), Offset: 9, SegmentIndex: uint64(st.trunc[g])}
	}
	st.flushed = sym.Int("flushed_through", 0, st.nseg-1)
	return st
}

// neededByRaft: the segment holds records of a group that has not truncated past it.
func (st *c36State) neededByRaft(s int) bool {
	for g := 1; g <= 2; g++ {
		if st.hasG[s][g] && (st.trunc[g] == 0 || s >= st.trunc[g]) {
			return true
		}
	}
	return false
}

func (st *c36State) neededByLSM(s int) bool { return st.hasLSM[s] && s > st.flushed }

// noTruncYet: the segment holds records of a group whose pointer has no
// truncation point yet (SegmentIndex == 0): the code then retains from the
// group's LATEST segment only (known finding).
func (st *c36State) noTruncYet(s int) bool {
	for g := 1; g <= 2; g++ {
		if st.hasG[s][g] && st.trunc[g] == 0 {
			return true
		}
	}
	return false
}

func (st *c36State) exists(s int) bool {
	return st.fs.Exists(fmt.Sprintf("%s/%05d.wal", c36Dir, s))
}

// The WAL watchdog never removes a segment that is still needed.
func VerifC36Watchdog() {
	st := c36Build()
	wd := wal.NewWatchdog(wal.WatchdogConfig{Manager: st.w, MinRemovable: 1, MaxBatch: 4,
		RaftPointers: func() map[uint64]manifest.RaftLogPointer { return st.ptrs }})
	wd.RunOnce()
	for s := 1; s <= st.nseg; s++ {
		if !st.exists(s) {
			sym.Reached("removed")
			sym.ClearFindings()
			sym.Finding("NoTruncationPointYet", st.noTruncYet(s))
			sym.Assert(!st.neededByRaft(s), "watchdog-keeps-untruncated-raft-entries")
			sym.ClearFindings()
			sym.Finding("UnflushedLSMEntriesInRaftSegment", st.neededByLSM(s) && (st.hasG[s][1] || st.hasG[s][2]))
			sym.Assert(!st.neededByLSM(s), "watchdog-keeps-unflushed-lsm-entries")
			sym.ClearFindings()
			sym.Assert(s != st.nseg, "watchdog-keeps-active-segment")
		}
	}
	sym.Reached("end")
}

// After a flush, the flushed memtable's segment is removed only if no raft
// group still needs it.
func VerifC36FlushRemoval() {
	st := c36Build()
	mfs := memfs.New()
	mgr, err := manifest.Open("/m", mfs)
	sym.Assert(err == nil, "manifest-open")
	for _, p := range st.ptrs {
		sym.Assert(mgr.LogRaftPointer(p) == nil, "log-pointer")
	}
	lm := &levelManager{manifestMgr: mgr, lsm: &LSM{wal: st.w}}
	fid := st.flushed // the segment whose memtable has just been installed as a table
	if fid >= 1 {
		if lm.canRemoveWalSegment(uint32(fid)) {
			sym.Reached("removable")
			sym.Finding("NoTruncationPointYet", st.noTruncYet(fid))
			sym.Assert(!st.neededByRaft(fid), "flush-keeps-untruncated-raft-entries")
		}
	}
	sym.Reached("end")
}

// ---- flush failure (real LSM flush path over model tables) ----
//
// A sealed memtable is flushed by the real flush worker / levelManager.flush;
// the manifest install may fail with an I/O error. The memtable's WAL segment
// may be removed only once a table holding its writes is installed: after a
// failed flush it must still exist (the writes live nowhere else on disk), and
// the write stays readable either way.
func VerifC36FlushFailureKeepsWAL() {
	sym.FreeRun()
	v := VerifOpenLSM("skiplist")
	payload := sym.U8("payload")
	key := kv.InternalKey(kv.CFDefault, []byte("a"), 1)
	sym.Assert(v.L.Set(kv.NewEntry(key, []byte{payload})) == nil, "write-accepted")
	seg := v.L.memTable.segmentID
	v.L.Rotate()
	if sym.Int("manifest_install_fails", 0, 1) == 1 {
		VerifFailManifest = true
		v.FlushAllExpectingFailure()
		sym.Assert(VerifManifestFailed == 1, "fault-injected")
		sym.Assert(!v.WALSegmentGone(seg), "wal-segment-kept-until-its-memtable-is-installed")
	} else {
		v.FlushAll()
	}
	got, err := v.L.Get(key)
	sym.Assert(err == nil && got != nil && len(got.Value) == 1 && got.Value[0] == payload, "write-still-readable")
	v.Close()
	sym.Reached("end")
}
