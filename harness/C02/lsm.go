//go:build verif

package lsm

import (
	sym "github.com/feichai0017/NoKV/internal/verifsym"
	"github.com/feichai0017/NoKV/kv"
	"github.com/feichai0017/NoKV/lsm/compact"
	"github.com/feichai0017/NoKV/utils"
)

// Versioned reads through the LSM under memtable rotation and flush.
//
// A sequence of writes on the real LSM (key a|b, symbolic version 1..3,
// symbolic payload or tombstone), each followed by nothing | sealing the
// memtable | sealing it and flushing every sealed memtable to L0 — then one
// read Get(key, v) with a symbolic version. The entry a memtable hit returns
// carries the probe key (not the stored version), so entries are told apart by
// their payloads, not by a reported version.
// Specification (C02; C01 is the special case "all versions equal"): the read
// returns the most recently written entry among those with the greatest version
// not above v, or not-found; rotation and flush never change the answer.

type c02Write struct {
	key byte
	ver uint64
	val byte
	del bool
}

func c02Run(engine string) {
	sym.FreeRun() // native: real LSM, real flush worker (gated), no schedule control needed
	v := VerifOpenLSM(engine)
	nsteps := 3
	if sym.Tier() > 0 {
		nsteps = 4
	}
	var hist []c02Write
	for i := 0; i < nsteps; i++ {
		w := c02Write{key: byte('a' + sym.Int("key", 0, 1)), ver: uint64(sym.SymInt("version", 1, 3)), val: sym.U8("payload")}
		if sym.Tier() > 0 {
			w.del = sym.Int("tombstone", 0, 1) == 1
		}
		e := kv.NewEntry(kv.InternalKey(kv.CFDefault, []byte{w.key}, w.ver), []byte{w.val})
		e.Version = w.ver
		if w.del {
			e.Meta = kv.BitDelete
			e.Value = nil
		}
		sym.Assert(v.L.Set(e) == nil, "write-accepted")
		hist = append(hist, w)
		// what happens before the next operation: nothing | the memtable is sealed |
		// it is sealed and every sealed memtable is flushed to L0
		switch sym.Int("then", 0, 2) {
		case 1:
			v.L.Rotate()
		case 2:
			v.L.Rotate()
			v.FlushAll()
		}
	}
	pk := byte('a' + sym.Int("probe_key", 0, 1))
	pv := uint64(sym.SymInt("probe_version", 1, 3))
	// specification
	var want *c02Write
	outOfOrder := false
	for i := range hist {
		w := &hist[i]
		if w.key != pk {
			continue
		}
		for j := 0; j < i; j++ {
			if hist[j].key == pk {
				outOfOrder = sym.Or(outOfOrder, w.ver < hist[j].ver)
			}
		}
		if w.ver <= pv && (want == nil || w.ver >= want.ver) {
			want = w
		}
	}
	// a later write of the same key carries a SMALLER version than an earlier one
	sym.Finding("OutOfOrderVersions", outOfOrder)
	got, err := v.L.Get(kv.InternalKey(kv.CFDefault, []byte{pk}, pv))
	if want == nil {
		sym.Assert(err == utils.ErrKeyNotFound || got == nil || (got.Value == nil && got.Meta == 0), "read-returns-newest-entry-at-or-below-version")
	} else {
		sym.Assert(err == nil && got != nil, "read-returns-newest-entry-at-or-below-version")
		if want.del {
			sym.Assert(got.Meta&kv.BitDelete != 0, "read-returns-the-most-recent-write-of-that-version")
		} else {
			sym.Assert(got.Meta&kv.BitDelete == 0 && len(got.Value) == 1 && got.Value[0] == want.val, "read-returns-the-most-recent-write-of-that-version")
		}
	}
	v.Close()
	sym.Reached("end")
}

func VerifC02LSMReadSkiplist() { c02Run("skiplist") }
func VerifC02LSMReadART()      { c02Run("art") }

// ---- C01: the plain KV API at the LSM boundary ----
//
// DB.Set/Del/Get(+CF) write and read every key at ONE sentinel version
// (math.MaxUint64), so every overwrite is a rewrite of the same internal key
// and only recency decides. 4 (thorough 5) writes — put with a symbolic payload
// or delete, key a|b — each followed by nothing | sealing the memtable |
// sealing and flushing to L0; then Get(key): the most recent write wins
// (a delete reads as a tombstone, which DB.Get turns into not-found).
func c01Run(engine string) {
	sym.FreeRun()
	v := VerifOpenLSM(engine)
	const sentinel = ^uint64(0)
	nsteps := 4
	if sym.Tier() > 0 {
		nsteps = 5
	}
	type wr struct {
		val byte
		del bool
	}
	last := map[byte]*wr{}
	for i := 0; i < nsteps; i++ {
		k := byte('a' + sym.Int("key", 0, 1))
		w := &wr{val: sym.U8("payload"), del: sym.Int("delete", 0, 1) == 1}
		e := kv.NewEntry(kv.InternalKey(kv.CFDefault, []byte{k}, sentinel), []byte{w.val})
		if w.del {
			e.Meta = kv.BitDelete
			e.Value = nil
		}
		sym.Assert(v.L.Set(e) == nil, "write-accepted")
		last[k] = w
		switch sym.Int("then", 0, 2) {
		case 1:
			v.L.Rotate()
		case 2:
			v.L.Rotate()
			v.FlushAll()
		}
	}
	pk := byte('a' + sym.Int("probe_key", 0, 1))
	got, err := v.L.Get(kv.InternalKey(kv.CFDefault, []byte{pk}, sentinel))
	want := last[pk]
	if want == nil {
		sym.Assert(err == utils.ErrKeyNotFound || got == nil || (got.Value == nil && got.Meta == 0), "get-returns-the-most-recent-write")
	} else {
		sym.Assert(err == nil && got != nil, "get-returns-the-most-recent-write")
		if want.del {
			sym.Assert(got.Meta&kv.BitDelete != 0, "get-returns-the-most-recent-write")
		} else {
			sym.Assert(got.Meta&kv.BitDelete == 0 && len(got.Value) == 1 && got.Value[0] == want.val, "get-returns-the-most-recent-write")
		}
	}
	v.Close()
	sym.Reached("end")
}

func VerifC01PlainKVSkiplist() { c01Run("skiplist") }
func VerifC01PlainKVART()      { c01Run("art") }

// ---- C01 with compaction steps ----
//
// As c01Run, with three levels and three more things that may happen after a
// write: the flushed L0 tables move into the ingest buffer of the last level,
// that ingest buffer is drained into the level's main tables, or it is merged in
// place — each executed by the real levelManager.doCompact.
func c01RunCompaction() {
	sym.FreeRun()
	verifLevels = 3
	v := VerifOpenLSM("skiplist")
	verifLevels = 2
	const sentinel = ^uint64(0)
	nsteps := 3
	type wr struct {
		val byte
		del bool
	}
	last := map[byte]*wr{}
	lastLevel := v.L.option.MaxLevelNum - 1
	// known finding (see known_findings.txt): a table REWRITTEN by an ingest merge
	// gets a fresh, higher file id although its data is old; a memtable that was
	// created before the merge and reaches the ingest buffer afterwards has a
	// lower id and newer data, and lookups rank tables by file id.
	rewritten := map[byte]bool{} // keys held by an ingest-merge output
	outranked := map[byte]bool{} // ... that were written again and moved into the buffer later
	var unflushed []byte         // keys written since the last flush
	var inL0 []byte              // keys of tables sitting in L0
	var inIngest []byte          // keys of tables sitting in the ingest buffer
	for i := 0; i < nsteps; i++ {
		k := byte('a' + sym.Int("key", 0, 1))
		w := &wr{val: sym.U8("payload"), del: sym.Int("delete", 0, 1) == 1}
		e := kv.NewEntry(kv.InternalKey(kv.CFDefault, []byte{k}, sentinel), []byte{w.val})
		if w.del {
			e.Meta = kv.BitDelete
			e.Value = nil
		}
		sym.Assert(v.L.Set(e) == nil, "write-accepted")
		last[k] = w
		unflushed = append(unflushed, k)
		// nothing | flush | flush + L0 moves to the ingest buffer | ... + drain | ... + merge in place
		then := sym.Int("then", 0, 4)
		if then >= 1 {
			v.L.Rotate()
			v.FlushAll()
			inL0 = append(inL0, unflushed...)
			unflushed = nil
		}
		if then >= 2 {
			v.VerifCompact(0, compact.IngestNone)
			for _, x := range inL0 {
				if rewritten[x] {
					outranked[x] = true
				}
			}
			inIngest = append(inIngest, inL0...)
		}
		if then == 3 {
			v.VerifCompact(lastLevel, compact.IngestDrain)
			rewritten = map[byte]bool{} // (what was outranked stays lost: the drain merged by file id)
			inIngest = nil
		}
		if then == 4 {
			v.VerifCompact(lastLevel, compact.IngestKeep)
			for _, x := range inIngest {
				rewritten[x] = true
			}
		}
		if then >= 2 {
			inL0 = nil
		}
	}
	pk := byte('a' + sym.Int("probe_key", 0, 1))
	sym.Finding("RewrittenTableOutranksYoungerTable", outranked[pk])
	got, err := v.L.Get(kv.InternalKey(kv.CFDefault, []byte{pk}, sentinel))
	want := last[pk]
	if want == nil {
		sym.Assert(err == utils.ErrKeyNotFound || got == nil || (got.Value == nil && got.Meta == 0), "get-returns-the-most-recent-write")
	} else if want.del {
		// a delete reads as a tombstone or, once compaction has dropped it together with
		// everything it shadows, as not-found
		sym.Assert(err == utils.ErrKeyNotFound || got == nil || got.Meta&kv.BitDelete != 0, "get-returns-the-most-recent-write")
	} else {
		sym.Assert(err == nil && got != nil && got.Meta&kv.BitDelete == 0 && len(got.Value) == 1 && got.Value[0] == want.val, "get-returns-the-most-recent-write")
	}
	v.Close()
	sym.Reached("end")
}

func VerifC01PlainKVCompaction() { c01RunCompaction() }

// ---- C02 with compaction into the last level's main tables ----
//
// 3 versioned writes (key a|b, symbolic version 1..3, symbolic payload), each
// followed by nothing | flush | flush + move to the ingest buffer + drain into
// the last level — with a table size target so small that the compaction starts
// a new output table at every user key — then Get(key, v) for a symbolic v.
func c02RunCompaction() {
	sym.FreeRun()
	verifLevels = 3
	verifCompactFileSz = 1
	verifBlockSize = 1
	v := VerifOpenLSM("skiplist")
	verifLevels, verifBlockSize = 2, 4<<10
	lastLevel := v.L.option.MaxLevelNum - 1
	var hist []c02Write
	for i := 0; i < 3; i++ {
		w := c02Write{key: byte('a' + sym.Int("key", 0, 1)), ver: uint64(sym.SymInt("version", 1, 3)), val: sym.U8("payload")}
		e := kv.NewEntry(kv.InternalKey(kv.CFDefault, []byte{w.key}, w.ver), []byte{w.val})
		e.Version = w.ver
		sym.Assert(v.L.Set(e) == nil, "write-accepted")
		hist = append(hist, w)
		then := sym.Int("then", 0, 2)
		if then >= 1 {
			v.L.Rotate()
			v.FlushAll()
		}
		if then == 2 {
			v.VerifCompact(0, compact.IngestNone)
			v.VerifCompact(lastLevel, compact.IngestDrain)
		}
	}
	verifCompactFileSz = 2 << 20
	pk := byte('a' + sym.Int("probe_key", 0, 1))
	pv := uint64(sym.SymInt("probe_version", 1, 3))
	var want *c02Write
	outOfOrder := false
	for i := range hist {
		w := &hist[i]
		if w.key != pk {
			continue
		}
		for j := 0; j < i; j++ {
			if hist[j].key == pk {
				outOfOrder = sym.Or(outOfOrder, w.ver < hist[j].ver)
			}
		}
		if w.ver <= pv && (want == nil || w.ver >= want.ver) {
			want = w
		}
	}
	sym.Finding("OutOfOrderVersions", outOfOrder)
	got, err := v.L.Get(kv.InternalKey(kv.CFDefault, []byte{pk}, pv))
	if want == nil {
		sym.Assert(err == utils.ErrKeyNotFound || got == nil || (got.Value == nil && got.Meta == 0), "read-returns-newest-entry-at-or-below-version")
	} else {
		sym.Assert(err == nil && got != nil, "read-returns-newest-entry-at-or-below-version")
		sym.Assert(len(got.Value) == 1 && got.Value[0] == want.val, "read-returns-the-most-recent-write-of-that-version")
	}
	v.Close()
	sym.Reached("end")
}

func VerifC02LSMReadCompaction() { c02RunCompaction() }
