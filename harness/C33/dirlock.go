//go:build verif

package utils

import (
	"os"

	"github.com/feichai0017/NoKV/internal/verifstubs/memfs"
	sym "github.com/feichai0017/NoKV/internal/verifsym"
	"github.com/feichai0017/NoKV/vfs"
)

// Three contenders acquire / release the working-directory lock in every
// interleaving at system-call granularity: at most one holds it at a time.
func VerifC33DirLock() {
	var fs vfs.FS
	dir := "/db"
	if sym.Symbolic() {
		m := memfs.New()
		m.YieldOnOps = true
		fs = m
	} else {
		d, err := os.MkdirTemp("", "verif-dirlock-")
		if err != nil {
			panic(err)
		}
		defer os.RemoveAll(d)
		dir = d
		fs = vfs.OSFS{}
	}
	n := 3
	holders := 0
	acquired := 0
	for t := 0; t < n; t++ {
		sym.Go(func() {
			l, err := AcquireDirLock(dir, fs)
			if err != nil {
				return // directory in use: this open fails, as it should
			}
			holders++
			acquired++
			sym.Assert(holders <= 1, "at-most-one-holder")
			sym.Yield()
			holders--
			sym.Assert(l.Release() == nil, "release-ok")
		})
	}
	sym.Wait()
	sym.Assert(acquired >= 1, "somebody-gets-the-lock")
	sym.Reached("end")
}
