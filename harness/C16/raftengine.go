//go:build verif

package engine

import (
	sym "github.com/feichai0017/NoKV/internal/verifsym"
	myraft "github.com/feichai0017/NoKV/raft"
)

// Raft log payloads: decode(encode(x)) == x (raftpb marshal code is executed for real).
func VerifC16RaftPayloadRoundTrip() {
	gid := sym.U64("gid")
	dl := sym.Int("dlen", 0, 2)
	e := myraft.Entry{Term: sym.U64("term"), Index: sym.U64("index"), Data: sym.Bytes("data", dl)}
	// bound: the group id (NoKV's own framing) ranges over all 64-bit values;
	// term and index, which only pass through etcd's generated varint code, are < 2^14
	sym.Assume(e.Term < 1<<14 && e.Index < 1<<14)
	enc, err := encodeRaftEntries(gid, []myraft.Entry{e})
	sym.Assert(err == nil, "entries-encode-ok")
	g2, es, err := decodeRaftEntries(enc)
	sym.Assert(err == nil, "entries-decode-ok")
	if err == nil {
		sym.Assert(g2 == gid && len(es) == 1, "entries-shape")
		if len(es) == 1 {
			sym.Assert(es[0].Term == e.Term && es[0].Index == e.Index && sym.BytesEq(es[0].Data, e.Data), "entry-eq")
		}
	}
	sym.Reached("end")
}

func VerifC16RaftHardStateRoundTrip() {
	gid := sym.U64("gid")
	st := myraft.HardState{Term: sym.U64("hterm"), Vote: sym.U64("hvote"), Commit: sym.U64("hcommit")}
	sym.Assume(st.Term < 1<<14 && st.Vote < 1<<14 && st.Commit < 1<<14)
	enc, err := encodeRaftHardState(gid, st)
	sym.Assert(err == nil, "hardstate-encode-ok")
	g3, st2, err := decodeRaftHardState(enc)
	sym.Assert(err == nil, "hardstate-decode-ok")
	if err == nil {
		sym.Assert(g3 == gid && st2.Term == st.Term && st2.Vote == st.Vote && st2.Commit == st.Commit, "hardstate-eq")
	}
	sym.Reached("end")
}

// Arbitrary bytes: the raft payload decoders return without panicking and
// allocate in proportion to the input.
func VerifC16RaftPayloadTotal() {
	max := 6
	if sym.Tier() > 0 {
		max = 11
	}
	n := sym.Int("n", 0, max)
	data := sym.Bytes("data", n)
	sym.AllocBudget(64*n + 256)
	switch sym.Int("which", 0, 2) { // one decoder per path (additive, not multiplicative)
	case 0:
		sym.NoPanic("decodeRaftHardState-no-panic", func() { _, _, _ = decodeRaftHardState(data) })
	case 1:
		sym.NoPanic("decodeRaftSnapshot-no-panic", func() { _, _, _ = decodeRaftSnapshot(data) })
	case 2:
		sym.NoPanic("decodeRaftEntries-no-panic", func() { _, _, _ = decodeRaftEntries(data) })
	}
	sym.Reached("end")
}

func oneLongRun(data []byte) bool {
	starts := 0
	for i := range data {
		hi := data[i]&0x80 != 0
		prev := false
		if i > 0 {
			prev = data[i-1]&0x80 != 0
		}
		starts += sym.IteInt(sym.And(hi, sym.Not(prev)), 1, 0)
	}
	return starts <= 1
}

// Longer inputs (11..14 bytes) containing at most one multi-byte uvarint.
func VerifC16RaftPayloadLongVarint() {
	lo, hi := 11, 12
	if sym.Tier() > 0 {
		hi = 14
	}
	n := sym.Int("n", lo, hi)
	data := sym.Bytes("data", n)
	sym.Assume(oneLongRun(data))
	sym.AllocBudget(64*n + 256)
	switch sym.Int("which", 0, 2) { // one decoder per path (additive, not multiplicative)
	case 0:
		sym.NoPanic("decodeRaftHardState-no-panic", func() { _, _, _ = decodeRaftHardState(data) })
	case 1:
		sym.NoPanic("decodeRaftSnapshot-no-panic", func() { _, _, _ = decodeRaftSnapshot(data) })
	case 2:
		// bound for the entry list: one-byte group id, declared count <= 2
		sym.Assume(data[0] < 0x80 && data[1] <= 2)
		sym.NoPanic("decodeRaftEntries-no-panic", func() { _, _, _ = decodeRaftEntries(data) })
	}
	sym.Reached("end")
}
