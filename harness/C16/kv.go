//go:build verif

package kv

import (
	"bytes"

	sym "github.com/feichai0017/NoKV/internal/verifsym"
)

// Entry record: decode(encode(e)) == e for every key/value of length 0..2,
// every meta byte and every 64-bit expiry.
func VerifC16EntryRoundTrip() {
	kl := sym.Int("klen", 0, 2)
	vl := sym.Int("vlen", 0, 2)
	e := &Entry{Key: sym.Bytes("key", kl), Value: sym.Bytes("val", vl), Meta: sym.U8("meta"), ExpiresAt: sym.U64("exp")}
	var buf bytes.Buffer
	n, err := EncodeEntryTo(&buf, e)
	sym.Assert(err == nil, "encode-ok")
	sym.Assert(n == buf.Len(), "encode-len")
	enc := append([]byte{}, buf.Bytes()...)
	d, recLen, err := DecodeEntryFrom(bytes.NewReader(enc))
	sym.Assert(err == nil, "decode-ok")
	if err != nil {
		return
	}
	sym.Assert(int(recLen) == len(enc), "record-len")
	sym.Assert(sym.BytesEq(d.Key, e.Key), "key-eq")
	sym.Assert(sym.BytesEq(d.Value, e.Value), "value-eq")
	sym.Assert(d.Meta == e.Meta, "meta-eq")
	sym.Assert(d.ExpiresAt == e.ExpiresAt, "expires-eq")
	// the slice decoder used by the value log agrees
	val, hdr, err := DecodeValueSlice(enc)
	sym.Assert(err == nil, "slice-decode-ok")
	if err == nil {
		sym.Assert(sym.BytesEq(val, e.Value), "slice-value-eq")
		sym.Assert(hdr.Meta == e.Meta && hdr.ExpiresAt == e.ExpiresAt && int(hdr.KeyLen) == kl && int(hdr.ValueLen) == vl, "slice-header-eq")
	}
	sym.Reached("end")
}

// Arbitrary / truncated bytes: DecodeEntryFrom and DecodeValueSlice return
// (no panic) and allocate in proportion to the input.
func VerifC16DecodeEntryTotal() {
	max := 8
	if sym.Tier() > 0 {
		max = 11
	}
	n := sym.Int("n", 0, max)
	data := sym.Bytes("data", n)
	sym.AllocBudget(64*n + 256)
	switch sym.Int("which", 0, 4) { // one decoder per path
	case 0:
		sym.NoPanic("DecodeEntryFrom-no-panic", func() {
			_, _, _ = DecodeEntryFrom(bytes.NewReader(data))
		})
	case 1:
		sym.NoPanic("DecodeValueSlice-no-panic", func() {
			_, _, _ = DecodeValueSlice(data)
		})
	case 2:
		sym.NoPanic("EntryHeader.Decode-no-panic", func() {
			var h EntryHeader
			_, _ = h.Decode(data)
		})
	case 3:
		sym.NoPanic("ValuePtr.Decode-no-panic", func() {
			var p ValuePtr
			p.Decode(data)
		})
	case 4:
		sym.NoPanic("SplitInternalKey-no-panic", func() {
			_, _, _ = SplitInternalKey(data)
			_, _, _ = DecodeKeyCF(data)
		})
	}
	sym.Reached("end")
}

// Entry header, value struct, value pointer round trips over full field ranges.
func VerifC16SmallCodecs() {
	h := EntryHeader{KeyLen: sym.U32("klen"), ValueLen: sym.U32("vlen"), Meta: sym.U8("meta"), ExpiresAt: sym.U64("exp")}
	buf := make([]byte, MaxEntryHeaderSize)
	n := h.Encode(buf)
	var d EntryHeader
	m, err := d.Decode(buf[:n])
	sym.Assert(err == nil, "header-decode-ok")
	sym.Assert(m == n, "header-len")
	sym.Assert(d == h, "header-eq")
	sym.Reached("end")
}

// Value pointer and value struct round trips over full field ranges.
func VerifC16ValueCodecs() {
	p := ValuePtr{Len: sym.U32("plen"), Offset: sym.U32("poff"), Fid: sym.U32("pfid"), Bucket: sym.U32("pbucket")}
	var q ValuePtr
	q.Decode(p.Encode())
	sym.Assert(q == p, "valueptr-eq")

	vl := sym.Int("vslen", 0, 2)
	vs := ValueStruct{Meta: sym.U8("vmeta"), Value: sym.Bytes("vval", vl), ExpiresAt: sym.U64("vexp")}
	out := make([]byte, vs.EncodedSize())
	w := vs.EncodeValue(out)
	sym.Assert(w == vs.EncodedSize(), "valuestruct-size")
	var vd ValueStruct
	vd.DecodeValue(out)
	sym.Assert(vd.Meta == vs.Meta && vd.ExpiresAt == vs.ExpiresAt && sym.BytesEq(vd.Value, vs.Value), "valuestruct-eq")
	sym.Reached("end")
}

// Internal keys: split(internal(cf,k,ts)) == (cf,k,ts); KeyWithTs/ParseKey/ParseTs.
func VerifC16InternalKeyRoundTrip() {
	kl := sym.Int("klen", 0, 3)
	key := sym.Bytes("key", kl)
	ts := sym.U64("ts")
	cfb := sym.U8("cf")
	cf := ColumnFamily(cfb)
	sym.Assume(cf.Valid())
	ik := InternalKey(cf, key, ts)
	cf2, k2, ts2 := SplitInternalKey(ik)
	sym.Assert(cf2 == cf, "cf-eq")
	sym.Assert(sym.BytesEq(k2, key), "userkey-eq")
	sym.Assert(ts2 == ts, "ts-eq")
	kt := KeyWithTs(key, ts)
	sym.Assert(sym.BytesEq(ParseKey(kt), key), "parsekey-eq")
	if kl > 0 { // precondition: user keys are non-empty (the API rejects empty keys)
		sym.Assert(ParseTs(kt) == ts, "parsets-eq")
	}
	ec := EncodeKeyWithCF(cf, key)
	cf3, k3, ok := DecodeKeyCF(ec)
	sym.Assert(ok && cf3 == cf && sym.BytesEq(k3, key), "keycf-eq")
	sym.Reached("end")
}
