//go:build verif

package utils

import (
	sym "github.com/feichai0017/NoKV/internal/verifsym"
	"github.com/feichai0017/NoKV/kv"
)

// Internal keys order by (cf, user key) ascending, then version descending.
func VerifC16KeyOrder() {
	l1 := sym.Int("l1", 0, 2)
	l2 := sym.Int("l2", 0, 2)
	k1, k2 := sym.Bytes("k1", l1), sym.Bytes("k2", l2)
	t1, t2 := sym.U64("t1"), sym.U64("t2")
	c1, c2 := kv.ColumnFamily(sym.U8("cf1")), kv.ColumnFamily(sym.U8("cf2"))
	sym.Assume(c1.Valid() && c2.Valid())
	a := kv.InternalKey(c1, k1, t1)
	b := kv.InternalKey(c2, k2, t2)
	got := CompareKeys(a, b)
	// reference order
	var want int
	switch {
	case c1 != c2:
		if c1 < c2 {
			want = -1
		} else {
			want = 1
		}
	case !sym.BytesEq(k1, k2):
		if sym.BytesLess(k1, k2) {
			want = -1
		} else {
			want = 1
		}
	case t1 != t2:
		if t1 > t2 {
			want = -1
		} else {
			want = 1
		}
	}
	sym.Assert((got < 0) == (want < 0) && (got > 0) == (want > 0), "order")
	sym.Assert(kv.SameKey(a, b) == (c1 == c2 && sym.BytesEq(k1, k2)), "samekey")
	sym.Assert((CompareUserKeys(a, b) == 0) == (c1 == c2 && sym.BytesEq(k1, k2)), "compare-user-keys")
	sym.Reached("end")
}
