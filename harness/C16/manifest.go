//go:build verif

package manifest

import (
	sym "github.com/feichai0017/NoKV/internal/verifsym"
)

// VerifC16DecodeEditTotal: decodeEdit on every byte string of length <= N
// returns (no panic) and allocates in proportion to the input.
func VerifC16DecodeEditTotal() {
	max := 20
	if sym.Tier() > 0 {
		max = 12
	}
	n := sym.Int("n", 0, max)
	data := sym.Bytes("data", n)
	sym.AllocBudget(64*n + 256)
	sym.NoPanic("decodeEdit-no-panic", func() {
		_, _ = decodeEdit(data)
	})
	sym.Reached("end")
}
