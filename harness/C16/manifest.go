//go:build verif

package manifest

import (
	sym "github.com/feichai0017/NoKV/internal/verifsym"
)

// VerifC16DecodeEditTotal: decodeEdit on every byte string of length <= N
// returns (no panic) and allocates in proportion to the input.
func VerifC16DecodeEditTotal() {
	max := 11
	if sym.Tier() > 0 {
		max = 12
	}
	n := sym.Int("n", 0, max)
	data := sym.Bytes("data", n)
	sym.AllocBudget(64*n + 256)
	sym.NoPanic("decodeEdit-no-panic", func() {
		_, _ = decodeEdit(data)
	})
	sym.Reached("end")
}

// atMostOneLongRun restricts data to byte strings in which the bytes with the
// continuation bit (0x80) set form at most one contiguous run: at most one
// multi-byte uvarint anywhere, of any length (so 10-byte, overflowing and
// >= 2^63 values are included), every other field a single byte.
func atMostOneLongRun(data []byte) bool {
	starts := 0
	for i := range data {
		hi := data[i]&0x80 != 0
		prev := false
		if i > 0 {
			prev = data[i-1]&0x80 != 0
		}
		starts += sym.IteInt(sym.And(hi, sym.Not(prev)), 1, 0)
	}
	return starts <= 1
}

// VerifC16DecodeEditLongVarint: longer inputs (up to 22 bytes) under the
// "at most one multi-byte uvarint" restriction.
func VerifC16DecodeEditLongVarint() {
	lo, hi := 15, 19
	if sym.Tier() > 0 {
		lo, hi = 12, 24
	}
	n := sym.Int("n", lo, hi)
	data := sym.Bytes("data", n)
	sym.Assume(data[0] == 'N' && data[1] == 'o' && data[2] == 'K' && data[3] == 'V')
	sym.Assume(atMostOneLongRun(data))
	sym.AllocBudget(64*n + 256)
	sym.NoPanic("decodeEdit-no-panic", func() {
		_, _ = decodeEdit(data)
	})
	sym.Reached("end")
}
