//go:build verif

package percolator

import (
	sym "github.com/feichai0017/NoKV/internal/verifsym"
	"github.com/feichai0017/NoKV/pb"
)

// Lock and write records: decode(encode(x)) == x.
func VerifC16LockRoundTrip() {
	pl := sym.Int("plen", 0, 2)
	kind := sym.U8("kind")
	sym.Assume(kind <= 3) // the four defined mutation kinds
	l := Lock{Primary: sym.Bytes("primary", pl), Ts: sym.U64("ts"), TTL: sym.U64("ttl"), Kind: pb.Mutation_Op(kind), MinCommitTs: sym.U64("mincommit")}
	d, err := DecodeLock(EncodeLock(l))
	sym.Assert(err == nil, "lock-decode-ok")
	if err == nil {
		sym.Assert(sym.BytesEq(d.Primary, l.Primary) && d.Ts == l.Ts && d.TTL == l.TTL && d.Kind == l.Kind && d.MinCommitTs == l.MinCommitTs, "lock-eq")
	}
	sym.Reached("end")
}

func VerifC16WriteRoundTrip() {
	vl := sym.Int("vlen", 0, 2)
	wkind := sym.U8("wkind")
	sym.Assume(wkind <= 3)
	w := Write{Kind: pb.Mutation_Op(wkind), StartTs: sym.U64("start"), ShortValue: sym.Bytes("short", vl)}
	dw, err := DecodeWrite(EncodeWrite(w))
	sym.Assert(err == nil, "write-decode-ok")
	if err == nil {
		sym.Assert(dw.Kind == w.Kind && dw.StartTs == w.StartTs && sym.BytesEq(dw.ShortValue, w.ShortValue), "write-eq")
	}
	sym.Reached("end")
}

// Arbitrary bytes: DecodeLock / DecodeWrite return without panicking and
// allocate in proportion to the input.
func VerifC16LockWriteTotal() {
	max := 10
	if sym.Tier() > 0 {
		max = 14
	}
	n := sym.Int("n", 0, max)
	data := sym.Bytes("data", n)
	sym.AllocBudget(64*n + 256)
	if sym.Int("which", 0, 1) == 0 { // one decoder per path
		sym.NoPanic("DecodeLock-no-panic", func() { _, _ = DecodeLock(data) })
	} else {
		sym.NoPanic("DecodeWrite-no-panic", func() { _, _ = DecodeWrite(data) })
	}
	sym.Reached("end")
}

func oneLongRun(data []byte) bool {
	starts := 0
	for i := range data {
		hi := data[i]&0x80 != 0
		prev := false
		if i > 0 {
			prev = data[i-1]&0x80 != 0
		}
		starts += sym.IteInt(sym.And(hi, sym.Not(prev)), 1, 0)
	}
	return starts <= 1
}

// Longer inputs (13..18 bytes) containing at most one multi-byte uvarint.
func VerifC16LockWriteLongVarint() {
	lo, hi := 13, 15
	if sym.Tier() > 0 {
		hi = 19
	}
	n := sym.Int("n", lo, hi)
	data := sym.Bytes("data", n)
	sym.Assume(data[0] == 1)
	sym.Assume(oneLongRun(data))
	sym.AllocBudget(64*n + 256)
	if sym.Int("which", 0, 1) == 0 { // one decoder per path
		sym.NoPanic("DecodeLock-no-panic", func() { _, _ = DecodeLock(data) })
	} else {
		sym.NoPanic("DecodeWrite-no-panic", func() { _, _ = DecodeWrite(data) })
	}
	sym.Reached("end")
}
