//go:build verif

package NoKV

import (
	sym "github.com/feichai0017/NoKV/internal/verifsym"
	"github.com/feichai0017/NoKV/kv"
)

// A commit that the write pipeline refuses at enqueue time — because the
// database has been closed meanwhile, or because the request is over the batch
// limits — must leave nothing behind that blocks later calls: beginning the
// next transaction returns, and so does every later write (with an error after
// Close, successfully otherwise).
func VerifC37RefusedCommitThenBegin() {
	sym.FreeRun()
	db := VerifOpenPipelineDB(2, true)
	afterClose := sym.Int("refused_because_closed", 0, 1) == 1
	payload := sym.U8("payload")

	txn := db.NewTransaction(true)
	sym.Assert(txn.SetEntry(kv.NewEntry([]byte("a"), []byte{payload})) == nil, "buffered-write-accepted")
	savedCount := db.opt.MaxBatchCount
	if afterClose {
		VerifStopPipeline(db)
	} else {
		db.opt.MaxBatchCount = 1 // the request is now over the limit at enqueue time
	}
	var err error
	sym.NoBlock(func() { err = txn.Commit() })
	sym.Assert(err != nil, "refused-commit-reports-an-error")
	db.opt.MaxBatchCount = savedCount

	// the next transaction can begin (its read timestamp does not wait for the refused commit)
	sym.NoBlock(func() {
		t := db.NewTransaction(false)
		t.Discard()
	})
	sym.NoBlock(func() { err = db.Set([]byte("b"), []byte{payload}) })
	if afterClose {
		sym.Assert(err != nil, "write-after-close-is-refused")
	} else {
		sym.Assert(err == nil, "pipeline-usable-after-a-refused-commit")
		sym.NoBlock(func() {
			err = db.Update(func(t *Txn) error { return t.SetEntry(kv.NewEntry([]byte("c"), []byte{payload})) })
		})
		sym.Assert(err == nil, "pipeline-usable-after-a-refused-commit")
		VerifStopPipeline(db)
	}
	if sym.Symbolic() {
		sym.Assert(VerifApplied["a"] == 0, "refused-commit-leaves-no-trace")
		if !afterClose {
			sym.Assert(VerifApplied["b"] == 1 && VerifApplied["c"] == 1, "acknowledged-write-applied-exactly-once")
			sym.Assert(len(VerifValueOf["b"]) == 1 && VerifValueOf["b"][0] == payload, "acknowledged-write-applied-exactly-once")
		}
	}
	VerifRemovePipelineDir(db)
	sym.Reached("end")
}
