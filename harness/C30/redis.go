//go:build verif

package main

import (
	"context"
	"errors"
	"net"
	"os"
	"strconv"

	NoKV "github.com/feichai0017/NoKV"
	sym "github.com/feichai0017/NoKV/internal/verifsym"
	"github.com/feichai0017/NoKV/pb"
	"github.com/feichai0017/NoKV/raftstore/client"
)

// ---- model of the distributed store behind the raft back end ----
//
// Snapshot reads at a version, and a transactional write that (like Percolator's
// prewrite) is refused with a write conflict if any of its keys has a commit at
// or after its start version. Every call is one scheduling point.

type c30Write struct {
	commit  uint64
	value   []byte
	deleted bool
}

type c30Cluster struct {
	data map[string][]c30Write
	ts   uint64
}

func (c *c30Cluster) Reserve(n uint64) (uint64, error) {
	sym.Yield()
	first := c.ts + 1
	c.ts += n
	return first, nil
}

func (c *c30Cluster) BatchGet(ctx context.Context, keys [][]byte, version uint64) (map[string]*pb.GetResponse, error) {
	sym.Yield()
	out := map[string]*pb.GetResponse{}
	for _, k := range keys {
		var best *c30Write
		ws := c.data[string(k)]
		for i := range ws {
			if ws[i].commit <= version && (best == nil || ws[i].commit > best.commit) {
				best = &ws[i]
			}
		}
		if best == nil || best.deleted {
			out[string(k)] = &pb.GetResponse{NotFound: true}
		} else {
			out[string(k)] = &pb.GetResponse{Value: append([]byte{}, best.value...)}
		}
	}
	return out, nil
}

func (c *c30Cluster) Mutate(ctx context.Context, primary []byte, mutations []*pb.Mutation, startVersion, commitVersion, lockTTL uint64) error {
	sym.Yield()
	var conflicts []*pb.KeyError
	for _, m := range mutations {
		for _, w := range c.data[string(m.Key)] {
			if w.commit >= startVersion {
				conflicts = append(conflicts, &pb.KeyError{WriteConflict: &pb.WriteConflict{Key: m.Key, ConflictTs: w.commit, StartTs: startVersion}})
			}
		}
	}
	if len(conflicts) > 0 {
		return &client.KeyConflictError{Errors: conflicts}
	}
	for _, m := range mutations {
		c.data[string(m.Key)] = append(c.data[string(m.Key)], c30Write{commit: commitVersion, value: append([]byte{}, m.Value...), deleted: m.Op == pb.Mutation_Delete})
	}
	return nil
}

func (c *c30Cluster) CheckTxnStatus(ctx context.Context, primary []byte, lockVersion, currentTS uint64) (*pb.CheckTxnStatusResponse, error) {
	return &pb.CheckTxnStatusResponse{}, nil
}
func (c *c30Cluster) ResolveLocks(ctx context.Context, startVersion, commitVersion uint64, keys [][]byte) (uint64, error) {
	return 0, nil
}
func (c *c30Cluster) Close() error { return nil }

func (c *c30Cluster) latest(key string) (string, bool) {
	var best *c30Write
	ws := c.data[key]
	for i := range ws {
		if best == nil || ws[i].commit > best.commit {
			best = &ws[i]
		}
	}
	if best == nil || best.deleted {
		return "", false
	}
	return string(best.value), true
}

// Concurrent INCR-family commands through the raft back end: the final counter
// equals the initial value plus the deltas of the commands that succeeded.
func VerifC30RaftIncr() {
	cl := &c30Cluster{data: map[string][]c30Write{}}
	initial := int64(sym.Int("initial", 0, 1)) * 10
	if initial != 0 {
		cl.data["ctr"] = []c30Write{{commit: 1, value: []byte(strconv.FormatInt(initial, 10))}}
		cl.ts = 1
	}
	n := 2
	var okDeltas int64
	for t := 0; t < n; t++ {
		delta := int64(t + 1)
		sym.Go(func() {
			b := &raftBackend{client: cl, ts: cl}
			if _, err := b.IncrBy([]byte("ctr"), delta); err == nil {
				okDeltas += delta
			}
		})
	}
	sym.Wait()
	v, found := cl.latest("ctr")
	got := int64(0)
	if found {
		got, _ = strconv.ParseInt(v, 10, 64)
	}
	// known finding: every read-modify-write of the raft back end (see known_findings.txt)
	sym.Finding("RaftBackendReadModifyWrite", true)
	sym.Assert(got == initial+okDeltas, "counter-equals-initial-plus-successful-deltas")
	sym.Reached("end")
}

// Concurrent SET NX on an absent key through the raft back end: at most one OK.
func VerifC30RaftSetNX() {
	cl := &c30Cluster{data: map[string][]c30Write{}}
	oks := 0
	for t := 0; t < 2; t++ {
		val := []byte{byte('A' + t)}
		sym.Go(func() {
			b := &raftBackend{client: cl, ts: cl}
			if ok, err := b.Set(setArgs{Key: []byte("k"), Value: val, NX: true}); err == nil && ok {
				oks++
			}
		})
	}
	sym.Wait()
	sym.Finding("RaftBackendReadModifyWrite", true)
	sym.Assert(oks <= 1, "at-most-one-set-nx-succeeds")
	sym.Reached("end")
}

// ---- embedded mode: the gateway must open the database with conflict detection ----

type c30Stop struct{}

var c30Captured *NoKV.Options

// c30OpenStub stands in for NoKV.Open inside the engine (records the options).
func c30OpenStub(opt *NoKV.Options) *NoKV.DB {
	c30Captured = opt
	return &NoKV.DB{}
}

func c30CloseStub(db *NoKV.DB) error { return nil }

// The options cmd/nokv-redis passes to NoKV.Open enable conflict detection
// (without it two read-modify-write transactions on one key both commit).
func VerifC30GatewayOptions() {
	if !sym.Symbolic() {
		dir, err := os.MkdirTemp("", "verif-c30-")
		if err != nil {
			panic(err)
		}
		defer os.RemoveAll(dir)
		old, _ := os.Getwd()
		os.Chdir(dir)
		defer os.Chdir(old)
		orig := newDefaultOptions
		newDefaultOptions = func() *NoKV.Options {
			c30Captured = orig()
			return c30Captured
		}
	}
	listen = func(network, address string) (net.Listener, error) { return nil, errors.New("verif: stop here") }
	exit = func(int) { panic(c30Stop{}) }
	func() {
		defer func() {
			if r := recover(); r != nil {
				if _, ok := r.(c30Stop); !ok {
					panic(r)
				}
			}
		}()
		main()
	}()
	sym.Assert(c30Captured != nil, "gateway-opened-a-database")
	if c30Captured != nil {
		sym.Assert(c30Captured.DetectConflicts, "gateway-enables-conflict-detection")
	}
	sym.Reached("end")
}
