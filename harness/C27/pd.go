//go:build verif

package server

import (
	"context"

	"github.com/feichai0017/NoKV/internal/verifstubs/memfs"
	sym "github.com/feichai0017/NoKV/internal/verifsym"
	"github.com/feichai0017/NoKV/pb"
	"github.com/feichai0017/NoKV/pd/core"
	pdstorage "github.com/feichai0017/NoKV/pd/storage"
	"github.com/feichai0017/NoKV/pd/tso"
)

const c27Dir = "/pd"

type c27Range struct{ first, last uint64 }

// Timestamps (kind 0) / ids (kind 1) handed out by concurrent requests are
// unique and increasing in allocation order, and a restart from the state
// persisted at ANY moment never hands one of them out again.
func c27Run(kind int) {
	fs := memfs.New()
	store, err := pdstorage.OpenLocalStore(c27Dir, fs)
	sym.Assert(err == nil, "store-open")
	svc := NewService(core.NewCluster(), core.NewIDAllocator(1), tso.NewAllocator(1))
	svc.SetStorage(store)
	ctx := context.Background()

	nthreads := 2
	if sym.Tier() > 0 {
		nthreads = 3
	}
	var handed []c27Range // responses that have been returned to a client, in return order
	alloc := func() {
		count := uint64(sym.SymInt("count", 0, 3)) // 0 means 1
		var first, n uint64
		if kind == 0 {
			resp, err := svc.Tso(ctx, &pb.TsoRequest{Count: count})
			sym.Assert(err == nil, "tso-ok")
			first, n = resp.GetTimestamp(), resp.GetCount()
		} else {
			resp, err := svc.AllocID(ctx, &pb.AllocIDRequest{Count: count})
			sym.Assert(err == nil, "alloc-ok")
			first, n = resp.GetFirstId(), resp.GetCount()
		}
		want := count
		if count == 0 {
			want = 1
		}
		sym.Assert(n == want && first >= 1, "count-as-requested")
		r := c27Range{first, first + n - 1}
		for _, o := range handed {
			sym.Assert(sym.Or(r.last < o.first, o.last < r.first), "ranges-disjoint")
			// o was returned before this request finished; if it was returned before this
			// request even started it must be lower (allocation order) — checked by (*) below
		}
		handed = append(handed, r)
	}
	for t := 0; t < nthreads; t++ {
		sym.Go(func() {
			startedAfter := len(handed) // everything returned before this call started
			alloc()
			mine := handed[len(handed)-1]
			for _, o := range handed[:startedAfter] {
				sym.Assert(o.last < mine.first, "later-request-gets-larger-values") // (*)
			}
		})
	}
	// the crash: at some moment the process dies; what survives is the state file as it is then
	var snap []byte
	snapTaken := false
	var handedAtCrash []c27Range
	sym.Go(func() {
		snap = append([]byte(nil), fs.Data(c27Dir+"/"+pdstorage.StateFileName)...)
		handedAtCrash = append([]c27Range(nil), handed...)
		snapTaken = true
	})
	sym.Wait()
	sym.Assert(snapTaken, "snapshot-taken")

	// restart from the surviving state, the way `nokv pd` does
	fs2 := memfs.New()
	if len(snap) > 0 {
		fs2.SetData(c27Dir+"/"+pdstorage.StateFileName, snap)
	}
	store2, err := pdstorage.OpenLocalStore(c27Dir, fs2)
	sym.Assert(err == nil, "store-reopen")
	loaded, err := store2.Load()
	sym.Assert(err == nil, "store-load")
	idStart, tsStart := pdstorage.ResolveAllocatorStarts(1, 1, loaded.Allocator)
	var next uint64
	if kind == 0 {
		next = tso.NewAllocator(tsStart).Next()
	} else {
		next = core.NewIDAllocator(idStart).Alloc()
	}
	for _, o := range handedAtCrash {
		sym.Assert(next > o.last, "restart-never-reissues-a-handed-out-value")
	}
	sym.Reached("end")
}

func VerifC27Tso()     { c27Run(0) }
func VerifC27AllocID() { c27Run(1) }
