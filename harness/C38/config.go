//go:build verif

package config

import (
	sym "github.com/feichai0017/NoKV/internal/verifsym"
)

// c38TemplateBad: the template is set (not blank) and lacks the "{id}" placeholder.
func c38TemplateBad(t []byte) bool {
	blank := true
	for _, c := range t {
		isSpace := sym.Or(sym.Or(sym.Or(c == ' ', c == '\t'), sym.Or(c == '\n', c == '\v')), sym.Or(c == '\f', c == '\r'))
		blank = sym.And(blank, isSpace)
	}
	has := false
	for i := 0; i+4 <= len(t); i++ {
		has = sym.Or(has, sym.And(sym.And(t[i] == '{', t[i+1] == 'i'), sym.And(t[i+2] == 'd', t[i+3] == '}')))
	}
	return sym.And(sym.Not(blank), sym.Not(has))
}

// Validate() == nil  <=>  none of the listed defects is present.
func VerifC38Validate() {
	f := &File{}
	// mode 0: arbitrary templates, empty topology; mode 1: unset templates with
	// an arbitrary topology (<= 2 stores, <= 2 regions x <= 2 peers); mode 2:
	// templates drawn from {"", " ", "x", "{id}", "a{id}"} with <= 1 store,
	// <= 1 region, <= 1 peer
	mode := sym.Int("mode", 0, 2)
	var tmpl, dtmpl []byte
	if mode == 0 {
		tmpl = sym.Bytes("tmpl", sym.Int("tmpl_len", 0, 6))
		dtmpl = sym.Bytes("dtmpl", sym.Int("dtmpl_len", 0, 4))
	} else if mode == 2 {
		choices := []string{"", " ", "x", "{id}", "a{id}"}
		tmpl = []byte(choices[sym.Int("tmpl_choice", 0, 4)])
		dtmpl = []byte(choices[sym.Int("dtmpl_choice", 0, 4)])
	}
	// ASCII templates (TrimSpace/Contains are byte-wise on ASCII; UTF-8 spaces are outside the bound)
	for _, c := range tmpl {
		sym.Assume(c < 0x80)
	}
	for _, c := range dtmpl {
		sym.Assume(c < 0x80)
	}
	f.StoreWorkDirTemplate = string(tmpl)
	f.StoreDockerWorkDirTemplate = string(dtmpl)
	ns, nr := 0, 0
	maxPeers := 2
	if mode == 1 {
		ns = sym.Int("nstores", 0, 2)
		nr = sym.Int("nregions", 0, 2)
	} else if mode == 2 {
		ns = sym.Int("nstores", 0, 1)
		nr = sym.Int("nregions", 0, 1)
		maxPeers = 1
	}
	defect := sym.Or(c38TemplateBad(tmpl), c38TemplateBad(dtmpl))
	var ids []uint64
	for i := 0; i < ns; i++ {
		id := sym.U64("store_id")
		f.Stores = append(f.Stores, Store{StoreID: id})
		defect = sym.Or(defect, id == 0)
		for _, prev := range ids {
			defect = sym.Or(defect, prev == id)
		}
		ids = append(ids, id)
	}
	known := func(id uint64) bool {
		k := false
		for _, s := range ids {
			k = sym.Or(k, s == id)
		}
		return k
	}
	for i := 0; i < nr; i++ {
		r := Region{ID: sym.U64("region_id"), LeaderStoreID: sym.U64("leader")}
		defect = sym.Or(defect, r.ID == 0)
		defect = sym.Or(defect, sym.And(r.LeaderStoreID != 0, sym.Not(known(r.LeaderStoreID))))
		np := sym.Int("npeers", 0, maxPeers)
		for j := 0; j < np; j++ {
			p := Peer{StoreID: sym.U64("peer_store"), PeerID: sym.U64("peer_id")}
			r.Peers = append(r.Peers, p)
			defect = sym.Or(defect, sym.Or(p.StoreID == 0, p.PeerID == 0))
			defect = sym.Or(defect, sym.Not(known(p.StoreID)))
		}
		f.Regions = append(f.Regions, r)
	}
	err := f.Validate()
	sym.Assert((err == nil) == !defect, "validate-iff-well-formed")
	sym.Reached("end")
}
