//go:build verif

package latch

import (
	sym "github.com/feichai0017/NoKV/internal/verifsym"
)

func c20Keys(name string, maxKeys int) [][]byte {
	n := sym.Int(name+"_n", 0, maxKeys)
	keys := make([][]byte, n)
	for i := range keys {
		if sym.Int(name+"_klen", 0, 1) == 1 {
			keys[i] = sym.Bytes(name+"_key", 1)
		}
	}
	return keys
}

func c20Share(a, b [][]byte) bool {
	sh := false
	for _, x := range a {
		for _, y := range b {
			if len(x) > 0 && len(y) > 0 {
				sh = sym.Or(sh, sym.BytesEq(x, y))
			}
		}
	}
	return sh
}

// Sequential obligations of Acquire: the slot list is strictly increasing
// (global lock order => no deadlock) and covers the stripe of every non-empty key.
func VerifC20SlotsOrdered() {
	m := NewManager(1 << sym.Int("stripes_log2", 0, 2))
	keys := c20Keys("k", 3)
	g := m.Acquire(keys)
	for i := 1; i < len(g.slots); i++ {
		sym.Assert(g.slots[i-1] < g.slots[i], "slots-strictly-increasing")
	}
	for _, k := range keys {
		if len(k) == 0 {
			continue
		}
		idx := int(c20Hash(k) % uint64(len(m.stripes)))
		covered := false
		for _, s := range g.slots {
			covered = sym.Or(covered, s == idx)
		}
		sym.Assert(covered, "every-key-stripe-held")
	}
	g.Release()
	g.Release() // releasing twice is harmless
	// everything is free again: a second acquisition of the same keys succeeds
	g2 := m.Acquire(keys)
	g2.Release()
	sym.Reached("end")
}

// A stale second Release — after the latches have been handed to somebody
// else — is harmless too: it must not free the new holder's latches.
func VerifC20StaleRelease() {
	m := NewManager(1 << sym.Int("stripes_log2", 0, 1))
	k1 := c20Keys("a", 2)
	k2 := c20Keys("b", 2)
	g1 := m.Acquire(k1)
	g1.Release()
	g2 := m.Acquire(k2) // the next request
	g1.Release()        // the first request releases again
	// every stripe of the second request is still locked
	for _, k := range k2 {
		if len(k) == 0 {
			continue
		}
		idx := int(c20Hash(k) % uint64(len(m.stripes)))
		free := m.stripes[idx].TryLock()
		sym.Assert(!free, "stale-release-does-not-free-the-next-holder")
		if free {
			m.stripes[idx].Unlock()
		}
	}
	g2.Release()
	sym.Reached("end")
}

// Concurrent requests: overlapping key sets never hold their latches at the
// same time; no interleaving deadlocks; double release is harmless.
func VerifC20MutualExclusion() {
	nthreads := 2
	if sym.Tier() > 0 {
		nthreads = 3
	}
	m := NewManager(1 << sym.Int("stripes_log2", 0, 1))
	keysets := make([][][]byte, nthreads)
	for i := range keysets {
		keysets[i] = c20Keys("t", 2)
	}
	inCS := make([]bool, nthreads)
	for i := 0; i < nthreads; i++ {
		i := i
		sym.Go(func() {
			g := m.Acquire(keysets[i])
			inCS[i] = true
			for j := range inCS {
				if j != i && inCS[j] {
					sym.Assert(!c20Share(keysets[i], keysets[j]), "overlapping-requests-never-hold-together")
				}
			}
			sym.Yield()
			inCS[i] = false
			g.Release()
			g.Release()
		})
	}
	sym.Wait()
	sym.Reached("end")
}
