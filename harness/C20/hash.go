//go:build verif

package latch

import "github.com/feichai0017/NoKV/kv"

func c20Hash(k []byte) uint64 { return kv.MemHash(k) }
