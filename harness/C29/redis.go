//go:build verif

package main

import (
	"bufio"
	"bytes"
	"strconv"

	NoKV "github.com/feichai0017/NoKV"
	sym "github.com/feichai0017/NoKV/internal/verifsym"
)

// ---- reference Redis model ----

type c29Val struct {
	val      []byte
	expireAt int64 // unix seconds, 0 = none
}

type c29Redis struct {
	now  int64
	data map[string]*c29Val
}

func (r *c29Redis) get(k string) *c29Val {
	v := r.data[k]
	if v == nil || (v.expireAt != 0 && v.expireAt <= r.now) {
		return nil
	}
	return v
}

const (
	c29Err = "-" // any error reply
)

func c29Bulk(b []byte) string { return "$" + strconv.Itoa(len(b)) + "\r\n" + string(b) + "\r\n" }

const c29Nil = "$-1\r\n"

// parseInt as Redis does (string2ll): no spaces, no empty string, no leading '+', in range
func c29ParseInt(s string) (int64, bool) {
	if s == "" {
		return 0, false
	}
	for i, c := range []byte(s) {
		if c == '-' && i == 0 && len(s) > 1 {
			continue
		}
		if c < '0' || c > '9' {
			return 0, false
		}
	}
	v, err := strconv.ParseInt(s, 10, 64)
	if err != nil {
		return 0, false
	}
	return v, true
}

// exec returns the expected reply; c29Err stands for "some error reply".
func (r *c29Redis) exec(args []string) string {
	switch args[0] {
	case "PING":
		if len(args) > 1 && len(args[1]) > 0 {
			return c29Bulk([]byte(args[1]))
		}
		return "+PONG\r\n"
	case "ECHO":
		if len(args) != 2 {
			return c29Err
		}
		return c29Bulk([]byte(args[1]))
	case "QUIT":
		return "+OK\r\n"
	case "GET":
		if len(args) != 2 {
			return c29Err
		}
		if v := r.get(args[1]); v != nil {
			return c29Bulk(v.val)
		}
		return c29Nil
	case "SET":
		if len(args) < 3 {
			return c29Err
		}
		nx, xx := false, false
		var exp int64
		hasExp := false
		for i := 3; i < len(args); {
			switch args[i] {
			case "NX":
				if xx {
					return c29Err
				}
				nx = true
				i++
			case "XX":
				if nx {
					return c29Err
				}
				xx = true
				i++
			case "EX", "PX", "EXAT", "PXAT":
				if hasExp || i+1 >= len(args) {
					return c29Err
				}
				n, ok := c29ParseInt(args[i+1])
				if !ok || n <= 0 {
					return c29Err
				}
				switch args[i] {
				case "EX":
					exp = r.now + n
				case "PX":
					exp = r.now + n/1000 // harness uses whole seconds
				case "EXAT":
					exp = n
				case "PXAT":
					exp = n / 1000
				}
				hasExp = true
				i += 2
			default:
				return c29Err
			}
		}
		cur := r.get(args[1])
		if (nx && cur != nil) || (xx && cur == nil) {
			return c29Nil
		}
		r.data[args[1]] = &c29Val{val: []byte(args[2]), expireAt: exp}
		return "+OK\r\n"
	case "DEL":
		if len(args) < 2 {
			return c29Err
		}
		n := 0
		for _, k := range args[1:] {
			if r.get(k) != nil {
				n++
			}
			delete(r.data, k)
		}
		return ":" + strconv.Itoa(n) + "\r\n"
	case "EXISTS":
		if len(args) < 2 {
			return c29Err
		}
		n := 0
		for _, k := range args[1:] {
			if r.get(k) != nil {
				n++
			}
		}
		return ":" + strconv.Itoa(n) + "\r\n"
	case "MGET":
		if len(args) < 2 {
			return c29Err
		}
		out := "*" + strconv.Itoa(len(args)-1) + "\r\n"
		for _, k := range args[1:] {
			if v := r.get(k); v != nil {
				out += c29Bulk(v.val)
			} else {
				out += c29Nil
			}
		}
		return out
	case "MSET":
		if len(args) < 3 || (len(args)-1)%2 != 0 {
			return c29Err
		}
		for i := 1; i < len(args); i += 2 {
			r.data[args[i]] = &c29Val{val: []byte(args[i+1])}
		}
		return "+OK\r\n"
	case "INCR", "DECR", "INCRBY", "DECRBY":
		var delta int64
		switch args[0] {
		case "INCR", "DECR":
			if len(args) != 2 {
				return c29Err
			}
			delta = 1
		default:
			if len(args) != 3 {
				return c29Err
			}
			d, ok := c29ParseInt(args[2])
			if !ok {
				return c29Err
			}
			delta = d
		}
		if args[0] == "DECR" || args[0] == "DECRBY" {
			if delta == -9223372036854775808 {
				return c29Err // decrement would overflow
			}
			delta = -delta
		}
		var cur int64
		v := r.get(args[1])
		if v != nil {
			c, ok := c29ParseInt(string(v.val))
			if !ok {
				return c29Err
			}
			cur = c
		}
		if (delta > 0 && cur > 9223372036854775807-delta) || (delta < 0 && cur < -9223372036854775808-delta) {
			return c29Err
		}
		cur += delta
		nv := &c29Val{val: []byte(strconv.FormatInt(cur, 10))}
		if v != nil {
			nv.expireAt = v.expireAt
		}
		r.data[args[1]] = nv
		return ":" + strconv.FormatInt(cur, 10) + "\r\n"
	}
	return c29Err
}

// ---- command generator ----

var c29Blank bool

var c29Keys = []string{"a", "b"}

// numeric corner cases for values and deltas
var c29Nums = []string{"5", "-3", "0", "9223372036854775807", "-9223372036854775808", "abc", "", " "}

// c29Payload: payload strings come from a small list (numeric payloads from
// the corner-case list). A symbolic payload byte would run through the std-lib's
// 256-entry UTF-8 / space tables and strconv's 64-bit divisions in every reply
// comparison — measured: queries time out — so payload data is enumerated here
// and symbolic data is confined to the clock.
func c29Payload() string {
	return []string{"x", "y", ""}[sym.Int("payload", 0, 2)]
}

func c29Key() string { return c29Keys[sym.Int("key", 0, 1)] }

func c29Command(now int64) []string {
	switch sym.Int("cmd", 0, 13) {
	case 0:
		return []string{"GET", c29Key()}
	case 1: // plain SET of a numeric corner case
		return []string{"SET", c29Key(), c29Nums[sym.Int("num", 0, len(c29Nums)-1)]}
	case 2: // SET of one symbolic byte with NX / XX
		v := c29Payload()
		switch sym.Int("cond", 0, 3) {
		case 0:
			return []string{"SET", c29Key(), v}
		case 1:
			return []string{"SET", c29Key(), v, "NX"}
		case 2:
			return []string{"SET", c29Key(), v, "XX"}
		default:
			return []string{"SET", c29Key(), v, "NX", "XX"}
		}
	case 3: // SET with expiry (whole seconds)
		opt := []string{"EX", "PX", "EXAT", "PXAT"}[sym.Int("expopt", 0, 3)]
		var arg string
		switch sym.Int("exparg", 0, 4) {
		case 0:
			arg = "0"
		case 1:
			arg = "-1"
		case 2:
			arg = "x"
		case 3: // expires 2 seconds from now
			switch opt {
			case "EX":
				arg = "2"
			case "PX":
				arg = "2000"
			case "EXAT":
				arg = strconv.FormatInt(now+2, 10)
			default:
				arg = strconv.FormatInt((now+2)*1000, 10)
			}
		default: // already in the past for the absolute forms, 1 s for the relative ones
			switch opt {
			case "EX":
				arg = "1"
			case "PX":
				arg = "1000"
			case "EXAT":
				arg = strconv.FormatInt(now-1, 10)
			default:
				arg = strconv.FormatInt((now-1)*1000, 10)
			}
		}
		return []string{"SET", c29Key(), "v", opt, arg}
	case 4:
		return []string{"DEL", c29Key(), c29Key()}
	case 5:
		return []string{"EXISTS", c29Key(), c29Key()}
	case 6:
		return []string{"MGET", c29Key(), c29Key()}
	case 7:
		return []string{"MSET", c29Key(), c29Payload(), c29Key(), "w"}
	case 8:
		return []string{"INCR", c29Key()}
	case 9:
		return []string{"DECR", c29Key()}
	case 10:
		return []string{"INCRBY", c29Key(), c29Nums[sym.Int("num", 0, len(c29Nums)-1)]}
	case 11:
		return []string{"DECRBY", c29Key(), c29Nums[sym.Int("num", 0, len(c29Nums)-1)]}
	case 12:
		if sym.Int("pingarg", 0, 1) == 1 {
			return []string{"PING", c29Payload()}
		}
		return []string{"PING"}
	default:
		if sym.Int("echo_or_quit", 0, 1) == 1 {
			return []string{"QUIT"}
		}
		return []string{"ECHO", c29Payload()}
	}
}

// For any sequence of commands from one client, replies and data match the
// reference Redis model.
func VerifC29Semantics() {
	n := 2
	if sym.Tier() > 0 {
		n = 3
	}
	db := NoKV.VerifOpenKVModelDB(false)
	srv := &redisServer{backend: newEmbeddedBackend(db)}
	model := &c29Redis{now: 1_800_000_000, data: map[string]*c29Val{}}
	clock := model.now
	sym.SetClock(func() int64 { return clock * 1_000_000_000 })
	for i := 0; i < n; i++ {
		// time passes: 0..2 whole seconds between commands
		clock += int64(sym.Int("tick", 0, 2))
		model.now = clock
		args := c29Command(clock)
		// known finding: INCR-family on a stored value that is empty or blank
		// (the gateway counts it as 0, Redis answers "not an integer")
		blank := false
		switch args[0] {
		case "INCR", "DECR", "INCRBY", "DECRBY":
			if v := model.get(args[1]); v != nil && (string(v.val) == "" || string(v.val) == " ") {
				blank = true
			}
		}
		c29Blank = c29Blank || blank
		sym.Finding("IncrOnBlankStoredValue", c29Blank)
		want := model.exec(args)
		var buf bytes.Buffer
		w := bufio.NewWriter(&buf)
		bargs := make([][]byte, len(args))
		for j, a := range args {
			bargs[j] = []byte(a)
		}
		err := srv.execute(w, bargs)
		if args[0] == "QUIT" {
			sym.Assert(err == errQuit, "quit-closes-connection")
		} else {
			sym.Assert(err == nil, "execute-ok")
		}
		w.Flush()
		got := buf.Bytes()
		if want == c29Err {
			sym.Assert(len(got) > 0 && got[0] == '-', "reply-is-an-error-where-redis-errors")
		} else {
			sym.Assert(sym.BytesEq(got, []byte(want)), "reply-matches-redis")
		}
	}
	// resulting data: read everything back
	for _, k := range c29Keys {
		var buf bytes.Buffer
		w := bufio.NewWriter(&buf)
		sym.Assert(srv.execute(w, [][]byte{[]byte("GET"), []byte(k)}) == nil, "execute-ok")
		w.Flush()
		sym.Assert(sym.BytesEq(buf.Bytes(), []byte(model.exec([]string{"GET", k}))), "data-matches-redis")
	}
	sym.Reached("end")
}
