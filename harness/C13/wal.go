//go:build verif

package wal

import (
	"fmt"

	"github.com/feichai0017/NoKV/internal/verifstubs/memfs"
	sym "github.com/feichai0017/NoKV/internal/verifsym"
)

type c13Rec struct {
	typ     RecordType
	payload []byte
	seg     uint32
	off     int64 // offset inside its segment (ghost, computed by the harness)
}

func (r c13Rec) end() int64 { return r.off + int64(len(r.payload)) + 9 }

const c13Dir = "/wal"

func c13Cfg(fs *memfs.FS, full bool) Config {
	return Config{Dir: c13Dir, FS: fs, BufferSize: 64, SyncOnWrite: full && sym.Int("sync_on_write", 0, 1) == 1}
}

// c13Append drives the real manager with n symbolic records, an optional
// Rotate() at a symbolic position, batched or one by one, and returns the ghost
// list of what was appended.
//
// full: record types are arbitrary bytes and batching / SyncOnWrite vary; else
// (torn-tail entry, where the type only feeds the metrics counters) the types
// cycle through the five metric classes from a symbolic start.
func c13Append(m *Manager, maxN, maxLen int, full bool) []c13Rec {
	n := sym.Int("n", 0, maxN)
	rot := sym.Int("rotate_before", 0, n) // == n: no rotation
	batch := full && sym.Int("batch", 0, 1) == 1
	t0 := 0
	if !full && n > 0 {
		t0 = sym.Int("type0", 0, 4)
	}
	var ghost []c13Rec
	seg := uint32(1)
	off := int64(0)
	var pending []Record
	flush := func() {
		if len(pending) == 0 {
			return
		}
		infos, err := m.AppendRecords(pending...)
		sym.Assert(err == nil, "append-ok")
		sym.Assert(len(infos) == len(pending), "append-infos")
		base := len(ghost) - len(pending)
		for i := range infos {
			g := ghost[base+i]
			sym.Assert(infos[i].SegmentID == g.seg && infos[i].Offset == g.off && infos[i].Length == uint32(len(g.payload)+1) && infos[i].Type == g.typ, "append-info-exact")
		}
		pending = nil
	}
	for i := 0; i < n; i++ {
		if i == rot {
			flush()
			sym.Assert(m.Rotate() == nil, "rotate-ok")
			seg++
			off = 0
		}
		l := sym.Int("plen", 0, maxLen)
		r := c13Rec{payload: sym.Bytes("payload", l), seg: seg, off: off}
		if full {
			r.typ = RecordType(sym.U8("type"))
		} else {
			r.typ = RecordType((t0 + i) % 5)
		}
		off = r.end()
		ghost = append(ghost, r)
		pending = append(pending, Record{Type: r.typ, Payload: r.payload})
		if !batch {
			flush()
		}
	}
	flush()
	return ghost
}

// c13Replay reopens the directory and asserts that replay yields exactly want.
func c13Replay(fs *memfs.FS, cfg Config, want []c13Rec, tag string) *Manager {
	m, err := Open(cfg)
	sym.Assert(err == nil, tag+"-open-ok")
	if err != nil {
		return nil
	}
	var got []c13Rec
	err = m.Replay(func(info EntryInfo, payload []byte) error {
		got = append(got, c13Rec{typ: info.Type, payload: payload, seg: info.SegmentID, off: info.Offset})
		return nil
	})
	sym.Assert(err == nil, tag+"-replay-ok")
	sym.Assert(len(got) == len(want), tag+"-count")
	if len(got) == len(want) {
		for i := range got {
			sym.Assert(got[i].typ == want[i].typ, tag+"-type")
			sym.Assert(sym.BytesEq(got[i].payload, want[i].payload), tag+"-payload")
			sym.Assert(got[i].seg == want[i].seg && got[i].off == want[i].off, tag+"-position")
		}
	}
	return m
}

func c13Bounds() (int, int) {
	if sym.Tier() > 0 {
		return 3, 2
	}
	return 2, 2
}

// Replay yields exactly the appended records, in order, with their types.
func VerifC13ReplayExact() {
	fs := memfs.New()
	cfg := c13Cfg(fs, true)
	m, err := Open(cfg)
	sym.Assert(err == nil, "open-ok")
	maxN, maxLen := c13Bounds()
	ghost := c13Append(m, maxN, maxLen, true)
	// replay through the live manager after Sync, and after Close through a new one
	if sym.Int("close_first", 0, 1) == 0 {
		sym.Assert(m.Sync() == nil, "sync-ok")
		var cnt int
		err = m.Replay(func(info EntryInfo, payload []byte) error { cnt++; return nil })
		sym.Assert(err == nil && cnt == len(ghost), "live-replay-count")
	}
	sym.Assert(m.Close() == nil, "close-ok")
	if m2 := c13Replay(fs, cfg, ghost, "reopen"); m2 != nil {
		m2.Close()
	}
	sym.Reached("end")
}

// If the newest segment is cut at any byte, replay yields exactly the records
// completely written before the cut, and a reopened log appends after them.
func VerifC13TornTail() {
	fs := memfs.New()
	cfg := c13Cfg(fs, false)
	m, err := Open(cfg)
	sym.Assert(err == nil, "open-ok")
	maxN, maxLen := c13Bounds()
	ghost := c13Append(m, maxN, maxLen, false)
	last := m.ActiveSegment()
	sym.Assert(m.Close() == nil, "close-ok")

	path := fmt.Sprintf("%s/%05d.wal", c13Dir, last)
	data := fs.Data(path)
	cut := sym.Int("cut", 0, len(data))
	fs.SetData(path, append([]byte(nil), data[:cut]...))

	var want []c13Rec
	for _, g := range ghost {
		if g.seg != last || g.end() <= int64(cut) {
			want = append(want, g)
		}
	}
	// the cut lands inside the 4-byte length field of the first lost record
	inHeader := false
	for _, g := range ghost {
		if g.seg == last && int64(cut) > g.off && int64(cut) < g.off+4 {
			inHeader = true
		}
	}
	sym.Finding("CutInsideLengthField", inHeader)

	sym.Assert(VerifyDir(c13Dir, fs) == nil, "verify-ok")
	m2 := c13Replay(fs, cfg, want, "torn")
	if m2 == nil {
		return
	}
	// append one more record after the surviving ones
	extra := c13Rec{typ: RecordType(sym.Int("xtype", 0, 1) * 3), payload: sym.Bytes("xpayload", sym.Int("xlen", 0, 1)), seg: last}
	for _, g := range want {
		if g.seg == last {
			extra.off = g.end()
		}
	}
	_, err = m2.AppendRecords(Record{Type: extra.typ, Payload: extra.payload})
	sym.Assert(err == nil, "append-after-ok")
	sym.Assert(m2.Close() == nil, "close2-ok")
	if m3 := c13Replay(fs, cfg, append(want, extra), "after"); m3 != nil {
		m3.Close()
	}
	sym.Reached("end")
}
