//go:build verif

package percolator

// VerifIsLockExpired exposes the unexported expiry predicate to the harness.
func VerifIsLockExpired(lock *Lock, currentTs uint64) bool { return isLockExpired(lock, currentTs) }
