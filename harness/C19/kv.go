//go:build verif

package kv

import (
	NoKV "github.com/feichai0017/NoKV"
	sym "github.com/feichai0017/NoKV/internal/verifsym"
	"github.com/feichai0017/NoKV/pb"
	"github.com/feichai0017/NoKV/percolator"
)

func (w *c17World) c19CheckLocks(tag string) {
	reader := percolator.NewReader(w.db)
	for k := range c17Keys {
		lock, err := reader.GetLock(c17Keys[k])
		sym.Assert(err == nil, "getlock-ok")
		want := w.m.lock[k]
		sym.Assert((lock != nil) == (want != nil), "lock-present-exactly-from-prewrite-to-finish")
		if lock != nil && want != nil {
			sym.Assert(lock.Ts == want.start, "lock-belongs-to-prewriting-txn")
		}
	}
}

// A prewritten key reports its lock until its transaction commits or rolls
// back and reports none afterwards; a removed lock never reappears.
func VerifC19LockLifetime() {
	w := c17NewWorld()
	defer NoKV.VerifCloseModelDB(w.db)
	n := c17N()
	txns := make([]*c17Txn, n)
	for i := range txns {
		txns[i] = c17DrawTxn(i)
	}
	for steps := 0; steps < 2*n; steps++ {
		var cand []*c17Txn
		for _, t := range txns {
			if !t.done {
				cand = append(cand, t)
			}
		}
		if len(cand) == 0 {
			break
		}
		t := cand[sym.Int("next_txn", 0, len(cand)-1)]
		if !t.prewrote {
			w.prewrite(t)
		} else {
			w.finish(t)
		}
		w.c19CheckLocks("step")
	}
	sym.Reached("end")
}

// Check-txn-status rolls a transaction back only if its primary lock has
// expired relative to the caller's timestamp (as integers).
func VerifC19Expiry() {
	// (1) the expiry predicate over full 64-bit values below 2^62 (no wrap-around)
	ts, ttl, cur := sym.U64("lock_ts"), sym.U64("ttl"), sym.U64("current_ts")
	sym.Assume(ts < 1<<62 && ttl < 1<<62)
	got := isLockExpiredForVerif(ts, ttl, cur)
	want := sym.And(ttl != 0, cur >= ts+ttl)
	sym.Assert(got == want, "expired-iff-current-at-or-after-start-plus-ttl")

	// (2) through the request: a live lock is rolled back iff expired
	w := c17NewWorld()
	defer NoKV.VerifCloseModelDB(w.db)
	t := c17DrawTxn(0)
	w.prewrite(t)
	sym.Assert(!t.done, "prewrite-ok")
	current := uint64(sym.SymInt("status_current_ts", 0, 120))
	r := w.apply(&pb.Request{CmdType: pb.CmdType_CMD_CHECK_TXN_STATUS, Cmd: &pb.Request_CheckTxnStatus{CheckTxnStatus: &pb.CheckTxnStatusRequest{
		PrimaryKey: t.keys()[0], LockTs: t.start, CurrentTs: current, CallerStartTs: uint64(sym.SymInt("caller_start", 0, 120))}}}).GetCheckTxnStatus()
	expired := sym.And(t.ttl != 0, current >= t.start+t.ttl)
	rolled := r.GetAction() == pb.CheckTxnStatusAction_CheckTxnStatusTTLExpireRollback
	sym.Assert(r.GetError() == nil, "status-ok")
	sym.Assert(rolled == expired, "rolled-back-iff-primary-lock-expired")
	lock, _ := percolator.NewReader(w.db).GetLock(t.keys()[0])
	sym.Assert((lock == nil) == expired, "lock-removed-iff-expired")
	sym.Reached("end")
}

func isLockExpiredForVerif(ts, ttl, cur uint64) bool {
	return percolator.VerifIsLockExpired(&percolator.Lock{Ts: ts, TTL: ttl}, cur)
}

// A commit below the lock's minimum commit timestamp is refused.
func VerifC19MinCommitTs() {
	w := c17NewWorld()
	defer NoKV.VerifCloseModelDB(w.db)
	t := c17DrawTxn(0)
	t.start = w.tso("s")
	minCommit := uint64(sym.SymInt("min_commit_ts", 0, 100))
	req := &pb.PrewriteRequest{PrimaryLock: c17Keys[t.muts[0].key], StartVersion: t.start, LockTtl: 0, MinCommitTs: minCommit}
	for _, m := range t.muts {
		req.Mutations = append(req.Mutations, &pb.Mutation{Op: m.op, Key: c17Keys[m.key], Value: m.value})
	}
	resp := w.apply(&pb.Request{CmdType: pb.CmdType_CMD_PREWRITE, Cmd: &pb.Request_Prewrite{Prewrite: req}})
	sym.Assert(len(resp.GetPrewrite().GetErrors()) == 0, "prewrite-ok")
	// a reader pushes the minimum commit timestamp of the primary
	effMin := minCommit
	if sym.Int("push", 0, 1) == 1 {
		caller := uint64(sym.SymInt("caller_start_ts", 1, 100))
		r := w.apply(&pb.Request{CmdType: pb.CmdType_CMD_CHECK_TXN_STATUS, Cmd: &pb.Request_CheckTxnStatus{CheckTxnStatus: &pb.CheckTxnStatusRequest{
			PrimaryKey: t.keys()[0], LockTs: t.start, CurrentTs: 0, CallerStartTs: caller}}}).GetCheckTxnStatus()
		sym.Assert(r.GetError() == nil, "status-ok")
		effMin = sym.IteU64(caller+1 > minCommit, caller+1, minCommit)
	}
	commitTs := uint64(sym.SymInt("commit_ts", 0, 120))
	cr := w.apply(&pb.Request{CmdType: pb.CmdType_CMD_COMMIT, Cmd: &pb.Request_Commit{Commit: &pb.CommitRequest{StartVersion: t.start, CommitVersion: commitTs, Keys: t.keys()[:1]}}}).GetCommit()
	ok := cr.GetError() == nil
	sym.Assert(sym.Implies(ok, commitTs >= effMin), "commit-below-min-commit-ts-refused")
	sym.Assert(sym.Implies(commitTs >= effMin, ok), "commit-at-or-above-min-commit-ts-accepted")
	sym.Reached("end")
}

// Two commands on one primary key run concurrently — the transaction's Commit
// and another client's CheckTxnStatus (any caller timestamp, lock expired or
// not) — in every interleaving of their latch operations within the preemption
// bound. The percolator functions serialise themselves through the latches, so
// the outcome must be one of the sequential ones: a commit that succeeded leaves
// no lock behind and a later status check reports the commit version; a commit
// refused because the check rolled the expired lock back first leaves no lock
// and no committed value; a commit refused because the check pushed the lock's
// min-commit-ts first leaves the transaction pending with its lock.
func VerifC19CommitVsStatusCheck() {
	w := c17NewWorld()
	defer NoKV.VerifCloseModelDB(w.db)
	t := &c17Txn{id: 0, ttl: uint64(sym.SymInt("ttl", 0, 60)), muts: []c17Mut{{key: 0, op: pb.Mutation_Put, value: []byte{sym.U8("payload")}}}}
	w.prewrite(t)
	sym.Assume(w.m.lock[0] == t)
	commitTs := w.tso("commit_gap")
	currentTs := uint64(sym.SymInt("status_check_current_ts", 0, 120))
	callerTs := uint64(sym.SymInt("status_check_caller_ts", 0, 120))
	var cerr *pb.KeyError
	var st *pb.CheckTxnStatusResponse
	sym.Go(func() {
		resp := w.apply(&pb.Request{CmdType: pb.CmdType_CMD_COMMIT, Cmd: &pb.Request_Commit{Commit: &pb.CommitRequest{StartVersion: t.start, CommitVersion: commitTs, Keys: t.keys()}}})
		cerr = resp.GetCommit().GetError()
	})
	sym.Go(func() {
		resp := w.apply(&pb.Request{CmdType: pb.CmdType_CMD_CHECK_TXN_STATUS, Cmd: &pb.Request_CheckTxnStatus{CheckTxnStatus: &pb.CheckTxnStatusRequest{
			PrimaryKey: c17Keys[0], LockTs: t.start, CurrentTs: currentTs, CallerStartTs: callerTs, RollbackIfNotExist: true}}})
		st = resp.GetCheckTxnStatus()
	})
	sym.Wait()
	sym.Assert(st != nil, "status-check-answers")
	lock, err := percolator.NewReader(w.db).GetLock(c17Keys[0])
	sym.Assert(err == nil, "getlock-ok")
	// afterwards, sequentially: what a later status check reports
	later := w.apply(&pb.Request{CmdType: pb.CmdType_CMD_CHECK_TXN_STATUS, Cmd: &pb.Request_CheckTxnStatus{CheckTxnStatus: &pb.CheckTxnStatusRequest{
		PrimaryKey: c17Keys[0], LockTs: t.start, CurrentTs: 1000, CallerStartTs: 1000, RollbackIfNotExist: true}}}).GetCheckTxnStatus()
	if cerr == nil {
		sym.Assert(lock == nil, "lock-present-exactly-from-prewrite-to-finish")
		sym.Assert(later.GetError() == nil && later.GetCommitVersion() == commitTs, "finished-transaction-keeps-its-outcome")
	} else if st.GetAction() == pb.CheckTxnStatusAction_CheckTxnStatusTTLExpireRollback {
		// the status check found the lock expired and rolled the transaction back first
		sym.Assert(lock == nil, "lock-present-exactly-from-prewrite-to-finish")
		sym.Assert(later.GetError() == nil && later.GetCommitVersion() == 0, "finished-transaction-keeps-its-outcome")
	} else {
		// the only other reason to refuse this commit: the status check pushed the
		// lock's min-commit-ts above the commit version first; the transaction is
		// still pending and still holds its lock
		sym.Assert(st.GetAction() == pb.CheckTxnStatusAction_CheckTxnStatusMinCommitTsPushed && cerr.GetCommitTsExpired() != nil, "refused-commit-has-a-protocol-reason")
		sym.Assert(lock != nil && lock.Ts == t.start, "lock-present-exactly-from-prewrite-to-finish")
		sym.Assert(later.GetError() == nil && later.GetCommitVersion() == 0, "finished-transaction-keeps-its-outcome")
	}
	sym.Reached("end")
}
