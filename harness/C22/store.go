//go:build verif

package store

import (
	sym "github.com/feichai0017/NoKV/internal/verifsym"
	"github.com/feichai0017/NoKV/pb"
	myraft "github.com/feichai0017/NoKV/raft"
	"github.com/feichai0017/NoKV/raftstore/command"
)

type c22Store struct {
	cp      *commandPipeline
	applied []byte // tags of applied commands, in order
	next    int    // next log index to apply
}

type c22Waiter struct {
	store int
	tag   byte
	prop  *commandProposal
}

// Two stores replicate one region. Commands are proposed on either store (each
// assigns its request id from its own pipeline, as ProposeCommand does), the
// committed log is applied by both stores at their own pace. Every replica
// applies the same sequence and every proposal is answered exactly once with the
// result of its own command.
func VerifC22ProposalIdentity() {
	nprop := 2
	if sym.Tier() > 0 {
		nprop = 3
	}
	var stores [2]*c22Store
	for i := range stores {
		st := &c22Store{}
		st.cp = newCommandPipeline(func(req *pb.RaftCmdRequest) (*pb.RaftCmdResponse, error) {
			tag := req.GetRequests()[0].GetGet().GetKey()[0]
			st.applied = append(st.applied, tag)
			// the result of a command identifies the command
			return &pb.RaftCmdResponse{Header: req.Header, Responses: []*pb.Response{{Cmd: &pb.Response_Get{Get: &pb.GetResponse{Value: []byte{tag}}}}}}, nil
		})
		stores[i] = st
	}
	var log []myraft.Entry
	var waiters []c22Waiter
	sameIDOnBothStores := false
	usedIDs := [2]map[uint64]bool{{}, {}}

	proposed := 0
	for step := 0; step < 3*nprop; step++ {
		canPropose := proposed < nprop
		var choice int
		if canPropose {
			choice = sym.Int("event", 0, 3) // 0/1: propose on store 0/1, 2/3: store 0/1 applies its next committed entry
		} else {
			choice = 2 + sym.Int("event", 0, 1)
		}
		if choice < 2 {
			st := stores[choice]
			tag := byte('A' + proposed)
			proposed++
			req := &pb.RaftCmdRequest{Header: &pb.CmdHeader{RegionId: 1}, Requests: []*pb.Request{{CmdType: pb.CmdType_CMD_GET, Cmd: &pb.Request_Get{Get: &pb.GetRequest{Key: []byte{tag}}}}}}
			// what ProposeCommand does after validateCommand:
			req.Header.RequestId = st.cp.nextProposalID()
			id := req.Header.RequestId
			if usedIDs[1-choice][id] {
				sameIDOnBothStores = true
			}
			usedIDs[choice][id] = true
			prop, err := st.cp.registerProposal(id)
			sym.Assert(err == nil && prop != nil, "register-ok")
			data, err := command.Encode(req)
			sym.Assert(err == nil, "encode-ok")
			// the entry is committed (agreement is raft's job): it enters the shared log
			log = append(log, myraft.Entry{Type: myraft.EntryNormal, Index: uint64(len(log) + 1), Term: 1, Data: data})
			waiters = append(waiters, c22Waiter{store: choice, tag: tag, prop: prop})
			continue
		}
		st := stores[choice-2]
		if st.next < len(log) {
			sym.Assert(st.cp.applyEntries(log[st.next:st.next+1]) == nil, "apply-ok")
			st.next++
		}
	}
	// everybody catches up
	for _, st := range stores {
		for st.next < len(log) {
			sym.Assert(st.cp.applyEntries(log[st.next:st.next+1]) == nil, "apply-ok")
			st.next++
		}
	}
	sym.Finding("SameRequestIDOnTwoStores", sameIDOnBothStores)
	sym.Assert(len(stores[0].applied) == len(log) && len(stores[1].applied) == len(log), "all-entries-applied")
	for i := range log {
		sym.Assert(stores[0].applied[i] == stores[1].applied[i], "replicas-apply-same-sequence")
	}
	for _, w := range waiters {
		select {
		case res, ok := <-w.prop.ch:
			sym.Assert(ok, "proposal-answered")
			if ok {
				sym.Assert(res.err == nil && res.resp != nil, "proposal-answered-successfully")
				got := res.resp.GetResponses()[0].GetGet().GetValue()[0]
				sym.Assert(got == w.tag, "response-is-result-of-own-command")
				_, again := <-w.prop.ch
				sym.Assert(!again, "proposal-answered-once")
			}
		default:
			sym.Assert(false, "proposal-answered")
		}
	}
	sym.Reached("end")
}
