//go:build verif

package main

import (
	"bufio"
	"bytes"
	"strconv"

	sym "github.com/feichai0017/NoKV/internal/verifsym"
)

// Any byte stream: parseRESP returns (no panic) and allocates in proportion
// to the bytes received.
func VerifC31Total() {
	max := 6
	if sym.Tier() > 0 {
		max = 8
	}
	c31Total(max, false)
}

// The same over ASCII streams (every byte < 0x80), which allows longer inputs.
func VerifC31TotalASCII() {
	max := 10
	if sym.Tier() > 0 {
		max = 13
	}
	c31Total(max, true)
}

func c31Total(max int, ascii bool) {
	n := sym.Int("n", 0, max)
	data := sym.Bytes("data", n)
	if ascii {
		for _, c := range data {
			sym.Assume(c < 0x80)
		}
	}
	sym.AllocBudget(64*n + 8192) // bufio's own 4 KiB buffer is part of every parse
	sym.NoPanic("parseRESP-no-panic", func() {
		_, _ = parseRESP(bufio.NewReader(bytes.NewReader(data)))
	})
	sym.Reached("end")
}

// Frames that declare a huge length: "*<digits>\r\n" and "*1\r\n$<digits>\r\n" with
// up to 19 symbolic digits.
func VerifC31DeclaredLengths() {
	maxd := 10 // up to 9,999,999,999: beyond every protocol limit and beyond 2^32
	if sym.Tier() > 0 {
		maxd = 19
	}
	nd := sym.Int("ndigits", 1, maxd)
	digits := sym.Bytes("digits", nd)
	for _, d := range digits {
		sym.Assume(d >= '0' && d <= '9')
	}
	var frame []byte
	if sym.Int("kind", 0, 1) == 0 {
		frame = append([]byte("*"), digits...)
		frame = append(frame, "\r\n$1\r\na\r\n"...)
	} else {
		frame = append([]byte("*1\r\n$"), digits...)
		frame = append(frame, "\r\nab\r\n"...)
	}
	sym.AllocBudget(64*len(frame) + 8192)
	sym.NoPanic("parseRESP-no-panic", func() {
		_, _ = parseRESP(bufio.NewReader(bytes.NewReader(frame)))
	})
	sym.Reached("end")
}

// Well-formed arrays parse into exactly their arguments.
func VerifC31ArrayRoundTrip() {
	nargs := sym.Int("nargs", 0, 2)
	var args [][]byte
	var frame []byte
	frame = append(frame, '*')
	frame = append(frame, strconv.Itoa(nargs)...)
	frame = append(frame, "\r\n"...)
	for i := 0; i < nargs; i++ {
		l := sym.Int("len", 0, 2)
		a := sym.Bytes("arg", l)
		args = append(args, a)
		frame = append(frame, '$')
		frame = append(frame, strconv.Itoa(l)...)
		frame = append(frame, "\r\n"...)
		frame = append(frame, a...)
		frame = append(frame, "\r\n"...)
	}
	// trailing bytes of a following command must not matter
	frame = append(frame, sym.Bytes("next", sym.Int("nextlen", 0, 1))...)
	out, err := parseRESP(bufio.NewReader(bytes.NewReader(frame)))
	sym.Assert(err == nil, "array-parse-ok")
	if err != nil {
		return
	}
	sym.Assert(len(out) == nargs, "array-argc")
	if len(out) == nargs {
		for i := range out {
			sym.Assert(sym.BytesEq(out[i], args[i]), "array-arg-eq")
		}
	}
	sym.Reached("end")
}

// Well-formed inline commands parse into their space-separated words.
func VerifC31InlineRoundTrip() {
	nw := sym.Int("nwords", 1, 2)
	var words [][]byte
	var frame []byte
	for i := 0; i < nw; i++ {
		l := sym.Int("wlen", 1, 2)
		w := sym.Bytes("word", l)
		for j, c := range w {
			// printable ASCII, no blanks; an inline command cannot start with '*'
			sym.Assume(c > ' ' && c < 0x7f)
			if i == 0 && j == 0 {
				sym.Assume(c != '*')
			}
		}
		if i > 0 {
			frame = append(frame, ' ')
		}
		frame = append(frame, w...)
		words = append(words, w)
	}
	frame = append(frame, "\r\n"...)
	out, err := parseRESP(bufio.NewReader(bytes.NewReader(frame)))
	sym.Assert(err == nil, "inline-parse-ok")
	if err != nil {
		return
	}
	sym.Assert(len(out) == nw, "inline-argc")
	if len(out) == nw {
		for i := range out {
			sym.Assert(sym.BytesEq(out[i], words[i]), "inline-arg-eq")
		}
	}
	sym.Reached("end")
}
