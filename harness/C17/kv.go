//go:build verif

package kv

import (
	NoKV "github.com/feichai0017/NoKV"
	sym "github.com/feichai0017/NoKV/internal/verifsym"
	"github.com/feichai0017/NoKV/pb"
)

// ---- history generator shared by C17 / C18 / C19 ----

var c17Keys = [][]byte{[]byte("a"), []byte("b")}

type c17Mut struct {
	key   int // index into c17Keys
	op    pb.Mutation_Op
	value []byte
}

type c17Txn struct {
	id       int
	muts     []c17Mut
	start    uint64
	commit   uint64
	ttl      uint64
	prewrote bool
	done     bool
}

// reference model, driven only by acknowledged outcomes of the protocol
type c17Write struct {
	commit, start uint64
	kind          pb.Mutation_Op // Put / Delete / Lock
	value         []byte
}

type c17Model struct {
	lock      [2]*c17Txn // per key: the transaction holding the lock
	lockKind  [2]pb.Mutation_Op
	lockVal   [2][]byte
	writes    [2][]c17Write
	committed map[int]bool
	rolled    map[int]bool
}

type c17World struct {
	db    *NoKV.DB
	clock uint64 // TSO: every fresh timestamp is larger than all earlier ones
	m     c17Model
}

func c17NewWorld() *c17World {
	return &c17World{db: NoKV.VerifOpenModelDB(), m: c17Model{committed: map[int]bool{}, rolled: map[int]bool{}}}
}

// tso returns a fresh timestamp: strictly above the previous one by a symbolic gap.
func (w *c17World) tso(name string) uint64 {
	// concrete, spaced by 2: a symbolic read timestamp can fall on, between and
	// around them; the ORDER is what the TSO fixes, magnitudes are irrelevant here
	w.clock += 2
	return w.clock
}

func c17DrawTxn(id int) *c17Txn {
	t := &c17Txn{id: id, ttl: uint64(sym.SymInt("ttl", 0, 60))}
	switch sym.Int("keyset", 0, 2) {
	case 0:
		t.muts = []c17Mut{{key: 0}}
	case 1:
		t.muts = []c17Mut{{key: 1}}
	default:
		t.muts = []c17Mut{{key: 0}, {key: 1}}
	}
	for i := range t.muts {
		switch sym.Int("op", 0, 2) {
		case 0:
			t.muts[i].op = pb.Mutation_Put
			t.muts[i].value = sym.Bytes("val", 1)
		case 1:
			t.muts[i].op = pb.Mutation_Delete
		default:
			t.muts[i].op = pb.Mutation_Lock
		}
	}
	return t
}

func (t *c17Txn) keys() [][]byte {
	var ks [][]byte
	for _, m := range t.muts {
		ks = append(ks, c17Keys[m.key])
	}
	return ks
}

func (w *c17World) apply(r *pb.Request) *pb.Response {
	resp, err := Apply(w.db, &pb.RaftCmdRequest{Requests: []*pb.Request{r}})
	sym.Assert(err == nil && resp != nil && len(resp.Responses) == 1, "apply-ok")
	return resp.Responses[0]
}

// prewrite sends the transaction's prewrite; on any key error the (correct)
// client rolls the transaction back.
func (w *c17World) prewrite(t *c17Txn) {
	t.start = w.tso("start_gap")
	t.prewrote = true
	req := &pb.PrewriteRequest{PrimaryLock: c17Keys[t.muts[0].key], StartVersion: t.start, LockTtl: t.ttl}
	for _, m := range t.muts {
		req.Mutations = append(req.Mutations, &pb.Mutation{Op: m.op, Key: c17Keys[m.key], Value: m.value})
	}
	resp := w.apply(&pb.Request{CmdType: pb.CmdType_CMD_PREWRITE, Cmd: &pb.Request_Prewrite{Prewrite: req}})
	errs := resp.GetPrewrite().GetErrors()
	if len(errs) == 0 {
		for _, m := range t.muts {
			w.m.lock[m.key] = t
			w.m.lockKind[m.key] = m.op
			w.m.lockVal[m.key] = m.value
		}
		return
	}
	sym.Reached("prewrite-refused")
	// partial prewrite: locks may exist on some keys; the client rolls back all keys
	for _, m := range t.muts {
		if w.m.lock[m.key] == nil {
			w.m.lock[m.key] = t // possibly locked; cleared by the rollback below
			w.m.lockKind[m.key] = m.op
		}
	}
	w.rollback(t, false)
}

func (w *c17World) modelCommit(t *c17Txn) {
	for _, m := range t.muts {
		if w.m.lock[m.key] == t {
			w.m.writes[m.key] = append(w.m.writes[m.key], c17Write{commit: t.commit, start: t.start, kind: w.m.lockKind[m.key], value: w.m.lockVal[m.key]})
			w.m.lock[m.key] = nil
		}
	}
	w.m.committed[t.id] = true
	t.done = true
}

func (w *c17World) modelRollback(t *c17Txn) {
	for _, m := range t.muts {
		if w.m.lock[m.key] == t {
			w.m.lock[m.key] = nil
		}
	}
	w.m.rolled[t.id] = true
	t.done = true
}

func (w *c17World) commit(t *c17Txn, viaResolve bool) *pb.KeyError {
	t.commit = w.tso("commit_gap")
	var kerr *pb.KeyError
	if viaResolve {
		resp := w.apply(&pb.Request{CmdType: pb.CmdType_CMD_RESOLVE_LOCK, Cmd: &pb.Request_ResolveLock{ResolveLock: &pb.ResolveLockRequest{StartVersion: t.start, CommitVersion: t.commit, Keys: t.keys()}}})
		kerr = resp.GetResolveLock().GetError()
	} else {
		resp := w.apply(&pb.Request{CmdType: pb.CmdType_CMD_COMMIT, Cmd: &pb.Request_Commit{Commit: &pb.CommitRequest{StartVersion: t.start, CommitVersion: t.commit, Keys: t.keys()}}})
		kerr = resp.GetCommit().GetError()
	}
	if kerr == nil {
		w.modelCommit(t)
	}
	return kerr
}

func (w *c17World) rollback(t *c17Txn, viaResolve bool) *pb.KeyError {
	var kerr *pb.KeyError
	if viaResolve {
		resp := w.apply(&pb.Request{CmdType: pb.CmdType_CMD_RESOLVE_LOCK, Cmd: &pb.Request_ResolveLock{ResolveLock: &pb.ResolveLockRequest{StartVersion: t.start, CommitVersion: 0, Keys: t.keys()}}})
		kerr = resp.GetResolveLock().GetError()
	} else {
		resp := w.apply(&pb.Request{CmdType: pb.CmdType_CMD_BATCH_ROLLBACK, Cmd: &pb.Request_BatchRollback{BatchRollback: &pb.BatchRollbackRequest{StartVersion: t.start, Keys: t.keys()}}})
		kerr = resp.GetBatchRollback().GetError()
	}
	if kerr == nil {
		w.modelRollback(t)
	}
	return kerr
}

// finish ends a prewritten transaction in one of the protocol's ways.
func (w *c17World) finish(t *c17Txn) {
	if t.done {
		return
	}
	// quick tier: commit / rollback / left locked; thorough adds the resolve-lock forms
	nfin := 2
	if sym.Tier() > 0 {
		nfin = 4
	}
	switch sym.Int("finish", 0, nfin) {
	case 0:
		sym.Assert(w.commit(t, false) == nil, "commit-of-prewritten-txn-ok")
	case 1:
		sym.Assert(w.rollback(t, false) == nil, "rollback-ok")
	case 3:
		sym.Assert(w.commit(t, true) == nil, "resolve-commit-ok")
	case 4:
		sym.Assert(w.rollback(t, true) == nil, "resolve-rollback-ok")
	default:
		t.done = true // left locked
	}
}

// history runs n transactions in a symbolic interleaving of their two steps.
func (w *c17World) history(n int) []*c17Txn {
	txns := make([]*c17Txn, n)
	for i := range txns {
		txns[i] = c17DrawTxn(i)
	}
	for steps := 0; steps < 2*n; steps++ {
		// pick any transaction that still has a step to take
		var cand []*c17Txn
		for _, t := range txns {
			if !t.done {
				cand = append(cand, t)
			}
		}
		if len(cand) == 0 {
			break
		}
		t := cand[sym.Int("next_txn", 0, len(cand)-1)]
		if !t.prewrote {
			w.prewrite(t)
		} else {
			w.finish(t)
		}
	}
	return txns
}

// expected read result at timestamp ts
func (w *c17World) expect(key int, ts uint64) (locked bool, found bool, value []byte) {
	if l := w.m.lock[key]; l != nil && l.start <= ts {
		return true, false, nil
	}
	var best *c17Write
	for i := range w.m.writes[key] {
		wr := &w.m.writes[key][i]
		if wr.kind == pb.Mutation_Lock || wr.commit > ts {
			continue
		}
		if best == nil || wr.commit > best.commit {
			best = wr
		}
	}
	if best == nil || best.kind == pb.Mutation_Delete {
		return false, false, nil
	}
	return false, true, best.value
}

func c17N() int {
	if sym.Tier() > 0 {
		return 3
	}
	return 2
}

// C17: reads return the newest committed value visible at their timestamp.
func VerifC17Reads() {
	w := c17NewWorld()
	defer NoKV.VerifCloseModelDB(w.db)
	txns := w.history(c17N())
	// a late, duplicated request for a finished transaction (stale resolver, client
	// retry): it must change nothing
	if late := sym.Int("late_request", 0, 2); late > 0 {
		t := txns[sym.Int("late_txn", 0, len(txns)-1)]
		if t.prewrote && (w.m.committed[t.id] || w.m.rolled[t.id]) {
			if late == 1 {
				w.apply(&pb.Request{CmdType: pb.CmdType_CMD_BATCH_ROLLBACK, Cmd: &pb.Request_BatchRollback{BatchRollback: &pb.BatchRollbackRequest{StartVersion: t.start, Keys: t.keys()}}})
			} else if t.commit != 0 {
				w.apply(&pb.Request{CmdType: pb.CmdType_CMD_COMMIT, Cmd: &pb.Request_Commit{Commit: &pb.CommitRequest{StartVersion: t.start, CommitVersion: t.commit, Keys: t.keys()}}})
			}
			sym.Reached("late-request")
		}
	}
	readTs := uint64(sym.SymInt("read_ts", 0, 40))

	// the read finds, above the visible committed value, the record of a rolled
	// back transaction or of a lock-only transaction (known-finding predicates)
	sym.Finding("RollbackOrLockRecordAboveValue", c17Shadowed(w, txns, readTs))

	scanLocked := false
	var scanWant []int
	for k := range c17Keys {
		locked, found, val := w.expect(k, readTs)
		resp := w.apply(&pb.Request{CmdType: pb.CmdType_CMD_GET, Cmd: &pb.Request_Get{Get: &pb.GetRequest{Key: c17Keys[k], Version: readTs}}}).GetGet()
		gotLocked := resp.GetError() != nil && resp.GetError().GetLocked() != nil
		sym.Assert(gotLocked == locked, "get-blocked-iff-visible-lock")
		if !locked && !gotLocked {
			sym.Assert(resp.GetError() == nil, "get-no-other-error")
			sym.Assert(resp.GetNotFound() == !found, "get-found-iff-committed-value-visible")
			if found && !resp.GetNotFound() {
				sym.Assert(sym.BytesEq(resp.GetValue(), val), "get-returns-newest-committed-value")
			}
		}
		if locked && !scanLocked {
			scanLocked = true
		}
		if !locked && found && !scanLocked {
			scanWant = append(scanWant, k)
		}
	}
	// scan over both keys must agree with the point gets
	if readTs > 0 {
		sresp := w.apply(&pb.Request{CmdType: pb.CmdType_CMD_SCAN, Cmd: &pb.Request_Scan{Scan: &pb.ScanRequest{Limit: 4, Version: readTs}}}).GetScan()
		if !scanLocked {
			sym.Assert(sresp.GetError() == nil, "scan-not-blocked-without-visible-lock")
			sym.Assert(len(sresp.GetKvs()) == len(scanWant), "scan-agrees-with-get-count")
			if len(sresp.GetKvs()) == len(scanWant) {
				for i, k := range scanWant {
					_, _, val := w.expect(k, readTs)
					kvp := sresp.GetKvs()[i]
					sym.Assert(sym.BytesEq(kvp.GetKey(), c17Keys[k]) && sym.BytesEq(kvp.GetValue(), val), "scan-agrees-with-get-value")
				}
			}
		}
	}
	sym.Reached("end")
}

// c17Shadowed: for some key, a transaction that was rolled back, or committed a
// lock-only mutation, has its record between the visible committed value and
// the read timestamp.
func c17Shadowed(w *c17World, txns []*c17Txn, readTs uint64) bool {
	sh := false
	for _, t := range txns {
		if !t.prewrote {
			continue
		}
		for _, m := range t.muts {
			if w.m.rolled[t.id] {
				sh = sym.Or(sh, t.start <= readTs)
			}
			if w.m.committed[t.id] && m.op == pb.Mutation_Lock {
				sh = sym.Or(sh, t.commit <= readTs)
			}
		}
	}
	return sh
}
