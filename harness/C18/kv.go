//go:build verif

package kv

import (
	NoKV "github.com/feichai0017/NoKV"
	sym "github.com/feichai0017/NoKV/internal/verifsym"
	"github.com/feichai0017/NoKV/pb"
)

// observable state of both keys: lock presence and the value read far in the future
type c18Obs struct {
	locked [2]bool
	found  [2]bool
	val    [2][]byte
}

func (w *c17World) observe() c18Obs {
	var o c18Obs
	for k := range c17Keys {
		resp := w.apply(&pb.Request{CmdType: pb.CmdType_CMD_GET, Cmd: &pb.Request_Get{Get: &pb.GetRequest{Key: c17Keys[k], Version: 1000}}}).GetGet()
		o.locked[k] = resp.GetError() != nil && resp.GetError().GetLocked() != nil
		o.found[k] = !o.locked[k] && !resp.GetNotFound()
		o.val[k] = resp.GetValue()
	}
	return o
}

func c18SameObs(a, b c18Obs) bool {
	eq := true
	for k := range c17Keys {
		eq = sym.And(eq, a.locked[k] == b.locked[k])
		eq = sym.And(eq, a.found[k] == b.found[k])
		if a.found[k] && b.found[k] {
			eq = sym.And(eq, sym.BytesEq(a.val[k], b.val[k]))
		}
	}
	return eq
}

// one request of a symbolic kind against transaction t; returns (kind, failed)
func (w *c17World) c18Request(t *c17Txn, kind int, commitTs uint64) bool {
	failed, _ := w.c18RequestX(t, kind, commitTs, 500)
	return failed
}

// c18RequestX additionally reports whether a check-txn-status rolled the transaction back.
func (w *c17World) c18RequestX(t *c17Txn, kind int, commitTs, currentTs uint64) (bool, bool) {
	if kind == 6 {
		r := w.apply(&pb.Request{CmdType: pb.CmdType_CMD_CHECK_TXN_STATUS, Cmd: &pb.Request_CheckTxnStatus{CheckTxnStatus: &pb.CheckTxnStatusRequest{PrimaryKey: t.keys()[0], LockTs: t.start, CurrentTs: currentTs, RollbackIfNotExist: true}}})
		st := r.GetCheckTxnStatus()
		act := st.GetAction()
		return st.GetError() != nil, act == pb.CheckTxnStatusAction_CheckTxnStatusTTLExpireRollback || act == pb.CheckTxnStatusAction_CheckTxnStatusLockNotExistRollback
	}
	return w.c18Request0(t, kind, commitTs), false
}

func (w *c17World) c18Request0(t *c17Txn, kind int, commitTs uint64) bool {
	switch kind {
	case 0: // commit all keys
		r := w.apply(&pb.Request{CmdType: pb.CmdType_CMD_COMMIT, Cmd: &pb.Request_Commit{Commit: &pb.CommitRequest{StartVersion: t.start, CommitVersion: commitTs, Keys: t.keys()}}})
		return r.GetCommit().GetError() != nil
	case 1: // commit the primary only
		r := w.apply(&pb.Request{CmdType: pb.CmdType_CMD_COMMIT, Cmd: &pb.Request_Commit{Commit: &pb.CommitRequest{StartVersion: t.start, CommitVersion: commitTs, Keys: t.keys()[:1]}}})
		return r.GetCommit().GetError() != nil
	case 2: // roll back all keys
		r := w.apply(&pb.Request{CmdType: pb.CmdType_CMD_BATCH_ROLLBACK, Cmd: &pb.Request_BatchRollback{BatchRollback: &pb.BatchRollbackRequest{StartVersion: t.start, Keys: t.keys()}}})
		return r.GetBatchRollback().GetError() != nil
	case 3: // roll back the last key only
		ks := t.keys()
		r := w.apply(&pb.Request{CmdType: pb.CmdType_CMD_BATCH_ROLLBACK, Cmd: &pb.Request_BatchRollback{BatchRollback: &pb.BatchRollbackRequest{StartVersion: t.start, Keys: ks[len(ks)-1:]}}})
		return r.GetBatchRollback().GetError() != nil
	case 4: // resolve: commit
		r := w.apply(&pb.Request{CmdType: pb.CmdType_CMD_RESOLVE_LOCK, Cmd: &pb.Request_ResolveLock{ResolveLock: &pb.ResolveLockRequest{StartVersion: t.start, CommitVersion: commitTs, Keys: t.keys()}}})
		return r.GetResolveLock().GetError() != nil
	case 5: // resolve: roll back
		r := w.apply(&pb.Request{CmdType: pb.CmdType_CMD_RESOLVE_LOCK, Cmd: &pb.Request_ResolveLock{ResolveLock: &pb.ResolveLockRequest{StartVersion: t.start, CommitVersion: 0, Keys: t.keys()}}})
		return r.GetResolveLock().GetError() != nil
	default: // check-txn-status on the primary with a caller timestamp far in the future (expired)
		r := w.apply(&pb.Request{CmdType: pb.CmdType_CMD_CHECK_TXN_STATUS, Cmd: &pb.Request_CheckTxnStatus{CheckTxnStatus: &pb.CheckTxnStatusRequest{PrimaryKey: t.keys()[0], LockTs: t.start, CurrentTs: 500, RollbackIfNotExist: true}}})
		return r.GetCheckTxnStatus().GetError() != nil
	}
}

// C18 (a)(b)(c): the outcome of one transaction is unique and final, and
// re-applied requests change nothing.
func VerifC18OutcomeFinal() {
	w := c17NewWorld()
	defer NoKV.VerifCloseModelDB(w.db)
	// an older committed value under both keys, so that "undo" is observable
	base := &c17Txn{id: 9, muts: []c17Mut{{key: 0, op: pb.Mutation_Put, value: []byte{7}}, {key: 1, op: pb.Mutation_Put, value: []byte{8}}}, ttl: 20}
	w.prewrite(base)
	sym.Assert(w.commit(base, false) == nil, "base-commit-ok")

	t := c17DrawTxn(0)
	w.prewrite(t)
	sym.Assert(!t.done, "prewrite-ok")
	commitTs := w.tso("c")

	nreq := 2
	if sym.Tier() > 0 {
		nreq = 3
	}
	// rolledBack: some key of the transaction was rolled back; rbKey[i]: mutation i's key was.
	// The commit-must-fail obligation is per key: a commit request that names a rolled
	// back key must fail (a request that names only other keys cannot know; the protocol
	// never rolls back a secondary while the primary can still commit).
	rolledBack, primaryCommitted, anyCommitted := false, false, false
	rbKey := make([]bool, len(t.muts))
	var afterCommit c18Obs
	n := sym.Int("nreq", 1, nreq)
	for i := 0; i < n; i++ {
		kind := sym.Int("kind", 0, 6)
		before := w.observe()
		currentTs := uint64(sym.SymInt("current_ts", 0, 200))
		failed, statusRolledBack := w.c18RequestX(t, kind, commitTs, currentTs)
		mid := w.observe()
		isCommit := kind == 0 || kind == 1 || kind == 4
		isRollback := kind == 2 || kind == 3 || kind == 5 || kind == 6
		if isCommit && kind != 4 {
			// (a) once any key is rolled back, commit must fail
			covered := rbKey[0]
			if kind == 0 {
				for _, rb := range rbKey {
					covered = covered || rb
				}
			}
			if covered {
				sym.Assert(failed, "commit-after-rollback-fails")
			}
			if !failed {
				primaryCommitted = true
				anyCommitted = true
			}
		}
		if kind == 4 && !failed && !rolledBack {
			// resolve-commit commits whatever is still locked
			anyCommitted = true
			primaryCommitted = true
		}
		if kind == 6 && !statusRolledBack {
			isRollback = false
		}
		if isRollback && !failed && !anyCommitted {
			rolledBack = true
			switch kind {
			case 3:
				rbKey[len(rbKey)-1] = true
			case 6:
				rbKey[0] = true
			default:
				for i := range rbKey {
					rbKey[i] = true
				}
			}
		}
		if primaryCommitted {
			// (b) a committed primary stays committed with its value
			if isCommit && !failed && afterCommit.val[0] == nil && !afterCommit.found[0] && !afterCommit.locked[0] {
				afterCommit = mid
			}
			prim := t.muts[0]
			sym.Assert(!mid.locked[prim.key] || kind == 1, "committed-primary-not-relocked")
			if prim.op == pb.Mutation_Put {
				sym.Assert(mid.found[prim.key] && sym.BytesEq(mid.val[prim.key], prim.value), "committed-primary-value-stays")
			}
			if prim.op == pb.Mutation_Delete {
				sym.Assert(!mid.found[prim.key], "committed-primary-delete-stays")
			}
		}
		if rolledBack && !anyCommitted {
			// rolled back: the older committed values are what is visible on rolled back keys
			_ = before
		}
		// (c) re-applying the same request changes nothing
		failed2, _ := w.c18RequestX(t, kind, commitTs, currentTs)
		again := w.observe()
		sym.Assert(c18SameObs(mid, again), "reapplied-request-changes-nothing")
		sym.Assert(failed == failed2 || !failed2, "reapplied-request-same-outcome")
	}
	sym.Reached("end")
}

// C18 (d): two transactions that write a common key with overlapping
// [start, commit] intervals never both commit.
func VerifC18NoDoubleCommit() {
	w := c17NewWorld()
	defer NoKV.VerifCloseModelDB(w.db)
	txns := w.history(2)
	t1, t2 := txns[0], txns[1]
	common := false
	for _, m1 := range t1.muts {
		for _, m2 := range t2.muts {
			if m1.key == m2.key {
				common = true
			}
		}
	}
	both := w.m.committed[t1.id] && w.m.committed[t2.id]
	if both && common {
		overlap := t1.start < t2.commit && t2.start < t1.commit
		sym.Assert(!overlap, "overlapping-writers-never-both-commit")
	}
	sym.Reached("end")
}

// C18 (d), delayed prewrite: a transaction takes its start timestamp, another
// one writes the same key and commits, possibly a third one prewrites and is
// rolled back (its rollback marker becomes the newest record), and only then
// the first transaction's prewrite arrives. It overlaps the committed writer and
// must not commit.
func VerifC18LatePrewrite() {
	w := c17NewWorld()
	defer NoKV.VerifCloseModelDB(w.db)
	key := sym.Int("key", 0, 1)
	mk := func(id int) *c17Txn {
		return &c17Txn{id: id, muts: []c17Mut{{key: key, op: pb.Mutation_Put, value: []byte{byte('0' + id)}}}, ttl: 20}
	}
	t1, t2, t3 := mk(1), mk(2), mk(3)
	t1Start := w.tso("s1") // T1 begins (timestamp taken), its prewrite is delayed
	w.prewrite(t2)
	sym.Assert(!t2.done, "t2-prewrite-ok")
	sym.Assert(w.commit(t2, false) == nil, "t2-commit-ok")
	switch sym.Int("third", 0, 2) {
	case 1: // a third writer is rolled back: its marker is now the newest write record
		w.prewrite(t3)
		if !t3.done {
			sym.Assert(w.rollback(t3, sym.Int("via_resolve", 0, 1) == 1) == nil, "t3-rollback-ok")
		}
	case 2: // a third writer commits as well
		w.prewrite(t3)
		if !t3.done {
			sym.Assert(w.commit(t3, false) == nil, "t3-commit-ok")
		}
	}
	// T1's delayed prewrite with its old start timestamp
	t1.start = t1Start
	t1.prewrote = true
	req := &pb.PrewriteRequest{PrimaryLock: c17Keys[key], StartVersion: t1.start, LockTtl: t1.ttl,
		Mutations: []*pb.Mutation{{Op: pb.Mutation_Put, Key: c17Keys[key], Value: t1.muts[0].value}}}
	resp := w.apply(&pb.Request{CmdType: pb.CmdType_CMD_PREWRITE, Cmd: &pb.Request_Prewrite{Prewrite: req}})
	accepted := len(resp.GetPrewrite().GetErrors()) == 0
	sym.Assert(!accepted, "prewrite-behind-a-later-commit-is-refused")
	if accepted {
		t1.commit = w.tso("c1")
		cr := w.apply(&pb.Request{CmdType: pb.CmdType_CMD_COMMIT, Cmd: &pb.Request_Commit{Commit: &pb.CommitRequest{StartVersion: t1.start, CommitVersion: t1.commit, Keys: t1.keys()}}})
		sym.Assert(cr.GetCommit().GetError() != nil, "overlapping-writers-never-both-commit")
	}
	sym.Reached("end")
}
