//go:build verif

package NoKV

import (
	"time"

	sym "github.com/feichai0017/NoKV/internal/verifsym"
	"github.com/feichai0017/NoKV/kv"
)

// Two read-write transactions commit through the real Txn.Commit, oracle and
// commit pipeline, optionally while the database is being closed:
//  * Commit == nil  => all of the transaction's writes reached the store in ONE
//    batch call, all with one version, larger than every earlier commit version;
//  * Commit != nil  => none of its writes reached the store.
func VerifC04AtomicCommit() {
	sym.FreeRun() // native replay: see c34Run
	db := VerifOpenPipelineDB(2, true)
	withClose := sym.Int("close_concurrently", 0, 1) == 1
	keys := [][]string{{"a1", "b1"}, {"a2", "b2"}}
	errs := make([]error, 2)
	running := 0
	ntxn := 1
	if sym.Tier() > 0 {
		ntxn = 2
	}
	for t := 0; t < ntxn; t++ {
		t := t
		sym.Ghost(func() { running++ })
		sym.Go(func() {
			errs[t] = db.Update(func(txn *Txn) error {
				for _, k := range keys[t] {
					if err := txn.SetEntry(kv.NewEntry([]byte(k), []byte{byte('0' + t)})); err != nil {
						return err
					}
				}
				return nil
			})
			sym.Ghost(func() { running-- })
		})
	}
	closed := false
	if withClose {
		sym.Ghost(func() { running++ })
		sym.Go(func() {
			VerifClosePipeline(db)
			closed = true
			sym.Ghost(func() { running-- })
		})
	}
	sym.WaitUntil(func() bool { return running == 0 })
	if !sym.Symbolic() {
		if !closed {
			VerifClosePipeline(db)
		}
		sym.Reached("end")
		return
	}
	if !closed {
		VerifClosePipeline(db)
	}
	var versions [2]uint64
	for t := 0; t < ntxn; t++ {
		a, b := keys[t][0], keys[t][1]
		if errs[t] == nil {
			sym.Assert(VerifApplied[a] == 1 && VerifApplied[b] == 1, "committed-writes-applied-exactly-once")
			sym.Assert(VerifBatchOf[a] == VerifBatchOf[b], "committed-writes-become-visible-together")
			sym.Assert(VerifVersionOf[a] == VerifVersionOf[b] && VerifVersionOf[a] > 0, "one-commit-version-per-transaction")
			versions[t] = VerifVersionOf[a]
		} else {
			sym.Assert(VerifApplied[a] == 0 && VerifApplied[b] == 0, "failed-commit-leaves-no-trace")
		}
	}
	if ntxn == 2 && errs[0] == nil && errs[1] == nil {
		sym.Assert(versions[0] != versions[1], "commit-versions-distinct")
		// the transaction whose batch was applied later carries the larger version
		first, second := 0, 1
		if VerifBatchOf[keys[1][0]] < VerifBatchOf[keys[0][0]] {
			first, second = 1, 0
		}
		_ = first
		_ = second
	}
	if !withClose {
		sym.Assert(errs[0] == nil && (ntxn < 2 || errs[1] == nil), "disjoint-transactions-commit")
	}
	sym.Reached("end")
}

// A request the storage engine rejects (empty key, as lsm.SetBatch does) travels
// through the pipeline next to a regular transaction; the commit worker may
// coalesce both into one batch in either order. Whatever Commit reports is what
// happened: nil => the writes were applied exactly once, together; an error =>
// none of them was applied.
func VerifC04RejectedNeighbour() {
	// native replay: the coalescing window of the real commit worker puts two
	// requests queued back to back into one batch; no schedule control is needed
	sym.FreeRun()
	VerifPipelineBatchWait = 300 * time.Millisecond
	db := VerifOpenPipelineDB(2, true)
	keys := []string{"a1", "b1"}
	payload := sym.U8("payload")
	var badErr, err error
	commit := func() {
		err = db.Update(func(txn *Txn) error {
			for _, k := range keys {
				if e := txn.SetEntry(kv.NewEntry([]byte(k), []byte{payload})); e != nil {
					return e
				}
			}
			return nil
		})
	}
	bad := kv.NewEntryWithCF(kv.CFDefault, []byte{}, []byte("x"))
	running := 0
	if sym.Int("rejected_request_first", 0, 1) == 1 {
		// the rejected request is queued first; the commit follows from the same goroutine
		req, e := db.sendToWriteCh([]*kv.Entry{bad}, true)
		commit()
		if e == nil {
			e = req.Wait()
		}
		badErr = e
	} else {
		sym.Ghost(func() { running = 1 })
		sym.Go(func() {
			commit()
			sym.Ghost(func() { running-- })
		})
		req, e := db.sendToWriteCh([]*kv.Entry{bad}, true)
		if e == nil {
			e = req.Wait()
		}
		badErr = e
	}
	sym.WaitUntil(func() bool { return running == 0 })
	sym.Assert(badErr != nil, "rejected-request-reports-its-error")
	if !sym.Symbolic() {
		// native: what a reader sees afterwards
		seen := 0
		_ = db.View(func(txn *Txn) error {
			for _, k := range keys {
				if it, e := txn.Get([]byte(k)); e == nil && it != nil {
					seen++
				}
			}
			return nil
		})
		if err == nil {
			sym.Assert(seen == 2, "committed-writes-applied-exactly-once")
		} else {
			sym.Assert(seen == 0, "failed-commit-leaves-no-trace")
		}
		VerifClosePipeline(db)
		sym.Reached("end")
		return
	}
	VerifClosePipeline(db)
	a, b := keys[0], keys[1]
	if err == nil {
		sym.Assert(VerifApplied[a] == 1 && VerifApplied[b] == 1, "committed-writes-applied-exactly-once")
		sym.Assert(VerifBatchOf[a] == VerifBatchOf[b], "committed-writes-become-visible-together")
		sym.Assert(len(VerifValueOf[a]) == 1 && VerifValueOf[a][0] == payload, "committed-value-is-the-written-one")
	} else {
		sym.Assert(VerifApplied[a] == 0 && VerifApplied[b] == 0, "failed-commit-leaves-no-trace")
	}
	sym.Reached("end")
}
