//go:build verif

package utils

import (
	"context"
	"sync"

	sym "github.com/feichai0017/NoKV/internal/verifsym"
)

type c32Ghost struct {
	w        *WaterMark
	alloc    sync.Mutex // the caller's lock under which indices are handed out and begun, in increasing order
	next     int
	called   [8]bool // Begin(x) has been called (x was above the mark: indices increase)
	finished [8]bool // Done(x) is about to be called / was called
	lastSeen uint64
}

// observe reads the mark and checks the two safety obligations.
func (g *c32Ghost) observe() {
	d := g.w.DoneUntil()
	sym.Assert(d >= g.lastSeen, "done-until-never-decreases")
	if d > g.lastSeen {
		g.lastSeen = d
	}
	for x := 1; x < len(g.called); x++ {
		if g.called[x] && !g.finished[x] {
			sym.Assert(d < uint64(x), "mark-below-every-begun-unfinished-index")
		}
	}
}

// worker is one committer: it takes the next index under the caller's lock and
// begins it there (exactly what oracle.newCommitTs does), works, then finishes it.
func (g *c32Ghost) worker() int {
	g.alloc.Lock()
	g.next++
	x := g.next
	g.called[x] = true
	g.w.Begin(uint64(x))
	g.alloc.Unlock()
	g.observe()
	sym.Yield()
	g.observe()
	g.finished[x] = true
	g.w.Done(uint64(x))
	g.observe()
	return x
}

// Concurrent committers: indices begin in increasing order under the caller's
// lock, Done calls and mark advances interleave freely. The mark never
// decreases and never reaches an index that has begun and not finished.
func VerifC32BeginDone() {
	g := &c32Ghost{w: &WaterMark{Name: "verif"}}
	g.w.Init(nil)
	n := 2
	if sym.Tier() > 0 {
		n = 3
	}
	for t := 0; t < n; t++ {
		sym.Go(func() { g.worker() })
	}
	sym.Wait()
	g.observe()
	sym.Assert(g.w.DoneUntil() == g.w.LastIndex(), "mark-reaches-last-index-when-all-done")
	sym.Reached("end")
}

// An independent reader next to two committers: two successive reads of the
// mark never go backwards (a regression of the mark inside tryAdvance is only
// visible to somebody who reads between two steps of another thread).
func VerifC32ReaderMonotone() {
	g := &c32Ghost{w: &WaterMark{Name: "verif"}}
	g.w.Init(nil)
	for t := 0; t < 2; t++ {
		sym.Go(func() {
			g.alloc.Lock()
			g.next++
			x := g.next
			g.w.Begin(uint64(x))
			g.alloc.Unlock()
			g.w.Done(uint64(x))
		})
	}
	sym.Go(func() {
		d1 := g.w.DoneUntil()
		sym.Yield()
		d2 := g.w.DoneUntil()
		sym.Assert(d2 >= d1, "done-until-never-decreases")
	})
	sym.Wait()
	sym.Assert(g.w.DoneUntil() == g.w.LastIndex(), "mark-reaches-last-index-when-all-done")
	sym.Reached("end")
}

// Begins in arbitrary (non-monotone) order: the mark still never decreases and
// ends at the last index. (An index begun below an already published higher
// index may be passed while its Begin is in progress: for such late Begins only
// these two obligations are claimed.)
func VerifC32AnyOrder() {
	g := &c32Ghost{w: &WaterMark{Name: "verif"}}
	g.w.Init(nil)
	n := 2
	if sym.Tier() > 0 {
		n = 3
	}
	used := map[int]bool{}
	for t := 0; t < n; t++ {
		x := sym.Int("index", 1, 3)
		sym.Assume(!used[x])
		used[x] = true
		sym.Go(func() {
			g.w.Begin(uint64(x))
			g.observeMonotone()
			sym.Yield()
			g.w.Done(uint64(x))
			g.observeMonotone()
		})
	}
	sym.Wait()
	g.observeMonotone()
	sym.Assert(g.w.DoneUntil() == g.w.LastIndex(), "mark-reaches-last-index-when-all-done")
	sym.Reached("end")
}

func (g *c32Ghost) observeMonotone() {
	d := g.w.DoneUntil()
	sym.Assert(d >= g.lastSeen, "done-until-never-decreases")
	if d > g.lastSeen {
		g.lastSeen = d
	}
}

// A returned WaitForMark(i) implies every begun index <= i has finished.
func VerifC32Wait() {
	g := &c32Ghost{w: &WaterMark{Name: "verif"}}
	g.w.Init(nil)
	wi := sym.Int("wait_index", 1, 2)
	sym.Go(func() { g.worker() })
	sym.Go(func() { g.worker() })
	sym.Go(func() {
		err := g.w.WaitForMark(context.Background(), uint64(wi))
		sym.Assert(err == nil, "wait-ok")
		for k := 1; k <= wi; k++ {
			if g.called[k] {
				sym.Assert(g.finished[k], "wait-returns-only-after-begun-indices-finished")
			}
		}
	})
	sym.Wait()
	sym.Reached("end")
}

