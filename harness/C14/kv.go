//go:build verif

package kv

import (
	"bytes"

	sym "github.com/feichai0017/NoKV/internal/verifsym"
)

func c14Flip(data []byte) ([]byte, int) {
	pos := sym.Int("flip_byte", 0, len(data)-1)
	mask := sym.U8("flip_mask")
	sym.Assume(mask != 0 && mask&(mask-1) == 0)
	out := append([]byte(nil), data...)
	out[pos] ^= mask
	return out, pos
}

func c14Entry() (*Entry, []byte) {
	maxK, maxV := 2, 2
	if sym.Tier() > 0 {
		maxK, maxV = 3, 3
	}
	e := &Entry{
		Key:       sym.Bytes("key", sym.Int("klen", 1, maxK)),
		Value:     sym.Bytes("val", sym.Int("vlen", 0, maxV)),
		Meta:      sym.U8("meta"),
		ExpiresAt: sym.U64("expires"),
	}
	// one-byte varints for meta / expiry so that header framing is fixed (4 bytes);
	// longer varints are the codec's concern (C16)
	sym.Assume(e.Meta < 0x80 && e.ExpiresAt < 0x80)
	var buf bytes.Buffer
	_, err := EncodeEntryTo(&buf, e)
	sym.Assert(err == nil, "encode-ok")
	return e, buf.Bytes()
}

// framingByte reports whether flipping this bit changes how the record is
// framed (key/value length, or a varint continuation bit): such a flip moves
// the checksum window, detection is then a property of CRC-32 collisions
// (probability 2^-32), not of the code, and is outside the claim.
func c14Framing(pos int, mask uint8) bool {
	return sym.Or(pos < 2, sym.And(pos < 4, mask == 0x80))
}

// An entry record (WAL payload / value-log record) with one flipped bit is
// never decoded as valid.
func VerifC14EntryFlip() {
	e, good := c14Entry()
	got, _, err := DecodeEntryFrom(bytes.NewReader(good))
	sym.Assert(err == nil && sym.BytesEq(got.Key, e.Key) && sym.BytesEq(got.Value, e.Value) && got.Meta == e.Meta && got.ExpiresAt == e.ExpiresAt, "roundtrip")

	bad, pos := c14Flip(good)
	mask := bad[pos] ^ good[pos]
	var derr error
	var out *Entry
	sym.NoPanic("decode-no-panic", func() { out, _, derr = DecodeEntryFrom(bytes.NewReader(bad)) })
	_ = out
	if !c14Framing(pos, mask) {
		sym.Assert(derr != nil, "flip-detected")
	}
	sym.Reached("end")
}

// The value-log read path (DecodeValueSlice over the record bytes) never
// returns a value from a record with one flipped bit.
func VerifC14ValueSliceFlip() {
	e, good := c14Entry()
	v, h, err := DecodeValueSlice(good)
	sym.Assert(err == nil && sym.BytesEq(v, e.Value) && h.Meta == e.Meta && h.ExpiresAt == e.ExpiresAt, "roundtrip")
	bad, pos := c14Flip(good)
	mask := bad[pos] ^ good[pos]
	var derr error
	var out []byte
	sym.NoPanic("decode-no-panic", func() { out, _, derr = DecodeValueSlice(bad) })
	_ = out
	if !c14Framing(pos, mask) {
		sym.Assert(derr != nil, "flip-detected")
	}
	sym.Reached("end")
}
