//go:build verif

package wal

import (
	"bytes"

	sym "github.com/feichai0017/NoKV/internal/verifsym"
)

// c14Flip returns a copy of data with exactly one bit flipped at a symbolic
// position: byte index forks (concrete per path), bit mask symbolic.
func c14Flip(data []byte) ([]byte, int) {
	pos := sym.Int("flip_byte", 0, len(data)-1)
	mask := sym.U8("flip_mask")
	sym.Assume(mask != 0 && mask&(mask-1) == 0) // exactly one bit
	out := append([]byte(nil), data...)
	out[pos] ^= mask
	return out, pos
}

// A single flipped bit anywhere in the type, payload or checksum of a WAL
// record is never decoded as a valid record.
func VerifC14WalRecordFlip() {
	maxLen := 3
	if sym.Tier() > 0 {
		maxLen = 6
	}
	n := sym.Int("plen", 0, maxLen)
	typ := RecordType(sym.U8("type"))
	payload := sym.Bytes("payload", n)
	var buf bytes.Buffer
	_, err := EncodeRecord(&buf, typ, payload)
	sym.Assert(err == nil, "encode-ok")
	good := buf.Bytes()
	// sanity: the unflipped record decodes to itself
	t0, p0, _, err0 := DecodeRecord(bytes.NewReader(good))
	sym.Assert(err0 == nil && t0 == typ && sym.BytesEq(p0, payload), "roundtrip")

	bad, pos := c14Flip(good)
	var gotType RecordType
	var gotPayload []byte
	var derr error
	sym.NoPanic("decode-no-panic", func() {
		gotType, gotPayload, _, derr = DecodeRecord(bytes.NewReader(bad))
	})
	if pos >= 4 {
		// type, payload or CRC byte: detection is a theorem of CRC-32C (injectivity
		// of the byte step in state and in data)
		sym.Assert(derr != nil, "flip-detected")
	} else {
		// length field (not covered by the CRC): a success must still be backed by
		// a matching checksum over exactly the bytes returned; what is asserted is
		// that the decoder never returns the ORIGINAL record's content as valid
		// under a different length, and never panics.
		if derr == nil {
			same := gotType == typ && sym.BytesEq(gotPayload, payload)
			sym.Assert(!same, "length-flip-not-same-record")
		}
	}
	// through the iterator: the flipped record is not yielded
	it := NewRecordIterator(bytes.NewReader(bad), 64)
	if pos >= 4 {
		sym.Assert(!it.Next(), "iterator-stops")
		sym.Assert(it.Err() != nil, "iterator-err")
	}
	sym.Reached("end")
}
