//go:build verif

// Package verifsym, native twin: replays a counterexample produced by the
// gosym engine against the real build (see sym_decl.go).
package verifsym

import (
	"encoding/json"
	"fmt"
	"hash/fnv"
	"math/rand"
	"os"
	"runtime"
	"strings"
	"sync"
	"sync/atomic"
	"testing"
	"time"
)

type replayFile struct {
	Property string            `json:"property"`
	Entry    string            `json:"entry"`
	Func     string            `json:"func"`
	Assert   string            `json:"assert"`
	Finding  string            `json:"finding"`
	Vars     map[string]uint64 `json:"vars"`
	Tier     int               `json:"tier"`
	Schedule []int             `json:"schedule"`
}

type stop struct{ why string }

var (
	mu        sync.Mutex
	cur       replayFile
	nameCnt   map[string]int
	preds     map[string]bool
	predOrder []string
	failed    string
	failMsg   string
	assumeBad bool
	budget    int64 = -1
	alloc0    uint64
	clockFn   func() int64
)

func sanitize(s string) string {
	var sb strings.Builder
	for _, c := range s {
		if c >= 'a' && c <= 'z' || c >= 'A' && c <= 'Z' || c >= '0' && c <= '9' || c == '_' || c == '.' {
			sb.WriteRune(c)
		} else {
			sb.WriteRune('_')
		}
	}
	if sb.Len() == 0 {
		return "v"
	}
	return sb.String()
}

func newVar(name string) uint64 {
	mu.Lock()
	defer mu.Unlock()
	name = sanitize(name)
	k := nameCnt[name]
	nameCnt[name] = k + 1
	full := name
	if k > 0 {
		full = fmt.Sprintf("%s.%d", name, k)
	}
	return cur.Vars[full]
}

func U8(name string) uint8   { return uint8(newVar(name)) }
func U16(name string) uint16 { return uint16(newVar(name)) }
func U32(name string) uint32 { return uint32(newVar(name)) }
func U64(name string) uint64 { return newVar(name) }
func I64(name string) int64  { return int64(newVar(name)) }
func I32(name string) int32  { return int32(newVar(name)) }
func Bool(name string) bool  { return newVar(name) == 1 }

func Int(name string, lo, hi int) int {
	v := int(int64(newVar(name)))
	if v < lo || v > hi {
		panic(stop{fmt.Sprintf("replay value %d for %s outside [%d,%d]", v, name, lo, hi)})
	}
	return v
}

func SymInt(name string, lo, hi int) int { return Int(name, lo, hi) }

func Bytes(name string, n int) []byte {
	name = sanitize(name)
	mu.Lock()
	k := nameCnt["bytes:"+name]
	nameCnt["bytes:"+name] = k + 1
	mu.Unlock()
	if k > 0 {
		name = fmt.Sprintf("%s.%d", name, k)
	}
	out := make([]byte, n)
	for i := range out {
		out[i] = byte(newVar(fmt.Sprintf("%s_%d", name, i)))
	}
	return out
}

func Assume(c bool) {
	if !c {
		assumeBad = true
		panic(stop{"assumption false in replay"})
	}
}

func Assert(c bool, name string) {
	if !c {
		mu.Lock()
		if failed == "" {
			failed = name
		}
		mu.Unlock()
		panic(stop{"assert " + name})
	}
}

func Finding(name string, pred bool) {
	mu.Lock()
	if _, ok := preds[name]; !ok {
		predOrder = append(predOrder, name)
	}
	preds[name] = pred
	mu.Unlock()
}

func ClearFindings() {
	mu.Lock()
	preds = map[string]bool{}
	predOrder = nil
	mu.Unlock()
}

func NoPanic(name string, f func()) {
	defer func() {
		if r := recover(); r != nil {
			if s, ok := r.(stop); ok {
				panic(s)
			}
			mu.Lock()
			if failed == "" {
				failed = name
				failMsg = fmt.Sprint(r)
			}
			mu.Unlock()
			panic(stop{"panic in NoPanic " + name})
		}
	}()
	f()
}

func Panics(f func()) (p bool) {
	defer func() {
		if r := recover(); r != nil {
			if s, ok := r.(stop); ok {
				panic(s)
			}
			p = true
		}
	}()
	f()
	return false
}

func And(a, b bool) bool     { return a && b }
func Or(a, b bool) bool      { return a || b }
func Not(a bool) bool        { return !a }
func Implies(a, b bool) bool { return !a || b }
func IteInt(c bool, a, b int) int {
	if c {
		return a
	}
	return b
}
func IteU64(c bool, a, b uint64) uint64 {
	if c {
		return a
	}
	return b
}
func IteU8(c bool, a, b uint8) uint8 {
	if c {
		return a
	}
	return b
}
func BytesEq(a, b []byte) bool   { return string(a) == string(b) }
func BytesLess(a, b []byte) bool { return string(a) < string(b) }
func StrEq(a, b string) bool     { return a == b }
func Observe(name string)        {}
func Reached(name string)        {}

func AllocBudget(n int) {
	budget = int64(n)
	var ms runtime.MemStats
	runtime.ReadMemStats(&ms)
	alloc0 = ms.TotalAlloc
}

// ---- cooperative scheduler (native replay of concurrency counterexamples) ----
//
// Exactly one thread holds the token at any time. The replay file carries
// "schedule": the id of the thread that runs after every scheduling event of
// the engine (a yield before a visible operation, one iteration of a blocked
// wait, a thread exit). The kernel's source file is instrumented for the replay
// (Point() before every atomic operation, Lock()/RLock() instead of mutex
// locks), so events are counted one to one. When the schedule is exhausted the
// remaining threads run to completion in id order.

type thr struct {
	id   int
	wake chan struct{}
	done bool
}

var (
	threads  []*thr
	curThr   *thr
	schedule []int
	schedPos int
	aborted  bool
)

// freeRun: the cooperative scheduler is off (see FreeRun in sym_decl.go)
var (
	stressIter int
	freeRun   bool
	freeWG    sync.WaitGroup
	freeAbort atomic.Bool
)

func FreeRun() { freeRun = true }

// NoBlock: f must return; a watchdog turns a hang into a "no-deadlock" failure.
func NoBlock(f func()) {
	done := make(chan struct{})
	var pv any
	go func() {
		defer close(done)
		defer func() { pv = recover() }()
		f()
	}()
	select {
	case <-done:
		if pv != nil {
			panic(pv)
		}
	case <-time.After(8 * time.Second):
		mu.Lock()
		if failed == "" {
			failed = "no-deadlock"
			failMsg = "call did not return within 8s"
		}
		mu.Unlock()
		panic(stop{"blocked forever"})
	}
}

func schedInit(s []int) {
	threads = []*thr{{id: 0, wake: make(chan struct{}, 1)}}
	curThr = threads[0]
	schedule = s
	schedPos = 0
}

func nextEvent() int {
	if schedPos < len(schedule) {
		t := schedule[schedPos]
		schedPos++
		if os.Getenv("VERIF_SCHED_DEBUG") != "" {
			_, file, line, _ := runtime.Caller(2)
			_, file3, line3, _ := runtime.Caller(3)
			fmt.Fprintf(os.Stderr, "event %d: thread %d -> %d at %s:%d <- %s:%d\n", schedPos-1, curThr.id, t, file, line, file3, line3)
		}
		return t
	}
	return -1
}

func otherRunnable(me *thr) *thr {
	for _, t := range threads {
		if t != me && !t.done {
			return t
		}
	}
	return nil
}

func handoff(me *thr, to *thr) {
	if to == nil || to == me || to.done {
		return
	}
	curThr = to
	to.wake <- struct{}{}
	<-me.wake
	if aborted && me.id != 0 {
		runtime.Goexit()
	}
}

func pick(me *thr, id int, mustSwitch bool) *thr {
	if id >= 0 && id < len(threads) && !threads[id].done && (threads[id] != me || !mustSwitch) {
		return threads[id]
	}
	if mustSwitch {
		return otherRunnable(me)
	}
	return me
}

// Point is one scheduling event before a visible operation.
func Point() struct{} {
	if freeRun {
		// stress iterations of a free-run replay: random short delays at the
		// instrumented points shake the interleaving (confirmation only; the
		// engine found the counterexample)
		if stressIter > 0 {
			if n := rand.Intn(8); n == 0 {
				time.Sleep(time.Duration(rand.Intn(300)) * time.Microsecond)
			} else if n < 3 {
				runtime.Gosched()
			}
		}
		return struct{}{}
	}
	if len(threads) == 0 {
		return struct{}{}
	}
	me := curThr
	handoff(me, pick(me, nextEvent(), false))
	return struct{}{}
}

// Seq sequences a Point before a visible call in any expression position.
func Seq[T any](_ struct{}, v T) T { return v }

type tryLocker interface {
	TryLock() bool
}
type tryRLocker interface {
	TryRLock() bool
}

// Lock is the cooperative form of m.Lock().
func Lock(m tryLocker) {
	if freeRun {
		m.(sync.Locker).Lock()
		return
	}
	Point()
	for !m.TryLock() {
		me := curThr
		to := pick(me, nextEvent(), true)
		if to == nil {
			panic("verifsym: deadlock in native replay (Lock)")
		}
		handoff(me, to)
	}
}

// RLock is the cooperative form of m.RLock().
func RLock(m tryRLocker) {
	if freeRun {
		m.(interface{ RLock() }).RLock()
		return
	}
	Point()
	for !m.TryRLock() {
		me := curThr
		to := pick(me, nextEvent(), true)
		if to == nil {
			panic("verifsym: deadlock in native replay (RLock)")
		}
		handoff(me, to)
	}
}

func Go(f func()) {
	if freeRun {
		freeWG.Add(1)
		go func() {
			defer freeWG.Done()
			defer func() {
				if r := recover(); r != nil {
					if _, ok := r.(stop); !ok {
						mu.Lock()
						if failed == "" {
							failed = "no-panic"
							failMsg = fmt.Sprint(r)
						}
						mu.Unlock()
					}
					freeAbort.Store(true)
				}
			}()
			f()
		}()
		return
	}
	if len(threads) == 0 {
		schedInit(nil)
	}
	t := &thr{id: len(threads), wake: make(chan struct{}, 1)}
	threads = append(threads, t)
	go func() {
		<-t.wake
		func() {
			defer func() {
				if r := recover(); r != nil {
					if _, ok := r.(stop); !ok {
						mu.Lock()
						if failed == "" {
							failed = "no-panic"
							failMsg = fmt.Sprint(r)
						}
						mu.Unlock()
					}
					aborted = true
				}
			}()
			f()
		}()
		t.done = true
		if aborted {
			// give the token back to the main thread, which stops the replay
			curThr = threads[0]
			threads[0].wake <- struct{}{}
			return
		}
		to := pick(t, nextEvent(), true)
		if to == nil {
			return
		}
		curThr = to
		to.wake <- struct{}{}
	}()
}

func allOthersDone() bool {
	for _, t := range threads[1:] {
		if !t.done {
			return false
		}
	}
	return true
}

func Wait() {
	if freeRun {
		freeWG.Wait()
		if freeAbort.Load() {
			panic(stop{"a thread stopped the replay"})
		}
		return
	}
	if len(threads) == 0 {
		return
	}
	me := threads[0]
	for !allOthersDone() && !aborted {
		to := pick(me, nextEvent(), true)
		if to == nil {
			break
		}
		handoff(me, to)
	}
	if aborted {
		panic(stop{"a thread stopped the replay"})
	}
}

func Yield() {
	if freeRun {
		runtime.Gosched()
		return
	}
	Point()
}

// WaitUntil is the cooperative form of "block until f()".
func WaitUntil(f func() bool) {
	if freeRun {
		for t0 := time.Now(); !lockedCond(f) && !freeAbort.Load(); {
			time.Sleep(200 * time.Microsecond)
			if time.Since(t0) > 8*time.Second {
				mu.Lock()
				if failed == "" {
					failed = "no-deadlock"
					failMsg = "WaitUntil: the condition did not become true within 8s"
				}
				mu.Unlock()
				panic(stop{"blocked forever"})
			}
		}
		if freeAbort.Load() {
			panic(stop{"a thread stopped the replay"})
		}
		return
	}
	if len(threads) == 0 {
		for !f() {
			runtime.Gosched()
		}
		return
	}
	for !f() && !aborted {
		me := curThr
		to := pick(me, nextEvent(), true)
		if to == nil {
			panic("verifsym: deadlock in native replay (WaitUntil)")
		}
		handoff(me, to)
	}
	if aborted && curThr.id == 0 {
		panic(stop{"a thread stopped the replay"})
	}
}
// lockedCond evaluates a harness condition; in free-run mode the ghost state it
// reads is written by other goroutines, FreeMu orders those accesses.
var FreeMu sync.Mutex

func Ghost(f func()) {
	FreeMu.Lock()
	defer FreeMu.Unlock()
	f()
}

func lockedCond(f func() bool) bool {
	FreeMu.Lock()
	defer FreeMu.Unlock()
	return f()
}
func Tier() int                    { return cur.Tier }
func Symbolic() bool               { return false }
func Concrete(v int) int           { return v }
func ConcreteU64(v uint64) uint64  { return v }
func SetClock(f func() int64)      { clockFn = f }
func MapOrder(on bool)             {}
func Preemptions() int             { return 0 }
func ThreadID() int                { return 0 }
func Log(v any)                    {}
func UF64(name string, args ...uint64) uint64 {
	h := fnv.New64a()
	fmt.Fprint(h, name, args)
	return h.Sum64()
}
func HashBytes(name string, b []byte) uint64 {
	h := fnv.New64a()
	h.Write([]byte(name))
	h.Write(b)
	return h.Sum64()
}

// Replay is called by the generated TestVerifReplay.
func Replay(t *testing.T, entries map[string]func()) {
	path := os.Getenv("VERIF_REPLAY")
	if path == "" {
		t.Skip("VERIF_REPLAY not set")
	}
	data, err := os.ReadFile(path)
	if err != nil {
		t.Fatal(err)
	}
	if err := json.Unmarshal(data, &cur); err != nil {
		t.Fatal(err)
	}
	short := cur.Func
	if i := strings.LastIndex(short, "."); i >= 0 {
		short = short[i+1:]
	}
	f := entries[short]
	if f == nil {
		t.Fatalf("no entry %q", short)
	}
	nameCnt = map[string]int{}
	preds = map[string]bool{}
	schedInit(cur.Schedule)
	run := func() {
		defer func() {
			if r := recover(); r != nil {
				if _, ok := r.(stop); ok {
					return
				}
				mu.Lock()
				if failed == "" {
					failed = "no-panic"
					failMsg = fmt.Sprint(r)
				}
				mu.Unlock()
			}
		}()
		f()
	}
	run()
	// a free-run entry whose counterexample depends on the interleaving: repeat
	// with random delays at the instrumented points until it shows (bounded)
	t0 := time.Now()
	for freeRun && failed == "" && !assumeBad && len(cur.Schedule) > 0 && stressIter < 200 && time.Since(t0) < 90*time.Second {
		stressIter++
		nameCnt = map[string]int{}
		preds = map[string]bool{}
		predOrder = nil
		freeAbort.Store(false)
		run()
	}
	if stressIter > 0 {
		fmt.Printf("REPLAY-STRESS iterations=%d\n", stressIter)
	}
	if budget >= 0 {
		var ms runtime.MemStats
		runtime.ReadMemStats(&ms)
		if d := ms.TotalAlloc - alloc0; int64(d) > budget+(32<<10) {
			if failed == "" || strings.Contains(failMsg, "makeslice") {
				failed = "alloc-bounded"
				failMsg = fmt.Sprintf("allocated %d bytes, budget %d", d, budget)
			}
		}
	}
	if strings.Contains(failMsg, "makeslice") || strings.Contains(failMsg, "out of memory") {
		failMsg = "alloc: " + failMsg
	}
	var holds []string
	for _, n := range predOrder {
		if preds[n] {
			holds = append(holds, n)
		}
	}
	out, _ := json.Marshal(map[string]any{"failed": failed, "msg": failMsg, "preds": holds, "assume_failed": assumeBad})
	fmt.Printf("REPLAY-RESULT %s\n", out)
}
