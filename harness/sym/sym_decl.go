//go:build verif

// Package verifsym is the harness-side API of the gosym engine. This file is
// the engine-side declaration: every function is body-less and intercepted by
// the symbolic interpreter. The native twin (sym_native.go) implements the same
// API by reading a counterexample file, so that the same harness text is both
// the SMT entry point and the native replay.
package verifsym

func U8(name string) uint8
func U16(name string) uint16
func U32(name string) uint32
func U64(name string) uint64
func I64(name string) int64
func I32(name string) int32
func Bool(name string) bool

// Int forks one path per value in [lo,hi]; the result is concrete on each path.
func Int(name string, lo, hi int) int

// SymInt is a symbolic int constrained to [lo,hi] (no fork).
func SymInt(name string, lo, hi int) int

// Bytes returns n fresh symbolic bytes (n concrete).
func Bytes(name string, n int) []byte

func Assume(c bool)
func Assert(c bool, name string)

// Finding declares a named discriminating predicate for known findings: for
// every later assertion the engine decides separately the inputs on which no
// declared predicate holds and, per predicate, the inputs on which it holds.
func Finding(name string, pred bool)
func ClearFindings()

// NoPanic asserts that f does not panic.
func NoPanic(name string, f func())

// Panics runs f and reports whether it panicked.
func Panics(f func()) bool

func And(a, b bool) bool
func Or(a, b bool) bool
func Not(a bool) bool
func Implies(a, b bool) bool
func IteInt(c bool, a, b int) int
func IteU64(c bool, a, b uint64) uint64
func IteU8(c bool, a, b uint8) uint8
func BytesEq(a, b []byte) bool
func BytesLess(a, b []byte) bool
func StrEq(a, b string) bool
func Observe(name string)
func Reached(name string)

// AllocBudget turns on the allocation monitor: every later make() whose size
// in bytes can exceed n + 64 KiB (slack for the native measurement) is reported as a violation of "alloc-bounded".
func AllocBudget(n int)

func Go(f func())
func Wait()
func Yield()

// WaitUntil blocks the calling thread until f() holds.
func WaitUntil(f func() bool)
func Tier() int

// FreeRun (native replay only; no effect in the engine) switches the
// cooperative scheduler off: threads run as ordinary goroutines and the
// recorded schedule is ignored. For entries whose counterexamples reproduce
// from the recorded DATA alone (the harness arranges the decisive ordering
// natively by other means, e.g. a batching window).
func FreeRun()

// NoBlock runs f. In the engine a thread that can never continue is a
// "no-deadlock" violation as everywhere; natively f runs under a watchdog and
// not returning within a few seconds fails "no-deadlock".
func NoBlock(f func())

// Ghost runs f, a harness step on ghost state shared between threads (one
// indivisible step in the engine; natively under the free-run mutex).
func Ghost(f func())
func Symbolic() bool
func Concrete(v int) int
func ConcreteU64(v uint64) uint64
func SetClock(f func() int64)
func MapOrder(on bool)
func UF64(name string, args ...uint64) uint64
func HashBytes(name string, b []byte) uint64
func Preemptions() int
func ThreadID() int
func Log(v any)
