//go:build verif

package lsm

import (
	"os"
	"time"

	"github.com/feichai0017/NoKV/file"
	sym "github.com/feichai0017/NoKV/internal/verifsym"
	"github.com/feichai0017/NoKV/kv"
	"github.com/feichai0017/NoKV/metrics"
	"github.com/feichai0017/NoKV/utils"
)

// An SST table built from n sorted entries (symbolic user keys of 1..2 bytes —
// prefix-related keys included — symbolic versions, one-byte or larger-than-a-
// block values, block size such that every entry gets its own block / two share
// a block / all share one) serves exactly those entries: point lookups, seeks
// in both directions, full scans, before and after reopening the file.
// Everything from tableBuilder.add to tableIterator/blockIterator is the real
// code; the file is a model byte slice (harness/stubs/sstfile).

type c35Rec struct {
	key []byte
	val []byte
}

func c35Name(dir string, id uint64) string { return "t7.sst" }
func c35FID(name string) uint64            { return 7 }

// little-endian layouts that the real code obtains through unsafe casts (amd64)
func c35HeaderEncode(h header) []byte {
	return []byte{byte(h.overlap), byte(h.overlap >> 8), byte(h.diff), byte(h.diff >> 8)}
}
func c35HeaderDecode(h *header, buf []byte) {
	h.overlap = uint16(buf[0]) | uint16(buf[1])<<8
	h.diff = uint16(buf[2]) | uint16(buf[3])<<8
}
func c35U32SliceToBytes(u []uint32) []byte {
	if len(u) == 0 {
		return nil
	}
	b := make([]byte, 4*len(u))
	for i, v := range u {
		b[4*i], b[4*i+1], b[4*i+2], b[4*i+3] = byte(v), byte(v>>8), byte(v>>16), byte(v>>24)
	}
	return b
}
func c35BytesToU32Slice(b []byte) []uint32 {
	if len(b) == 0 {
		return nil
	}
	u := make([]uint32, len(b)/4)
	for i := range u {
		u[i] = uint32(b[4*i]) | uint32(b[4*i+1])<<8 | uint32(b[4*i+2])<<16 | uint32(b[4*i+3])<<24
	}
	return u
}

func c35Key(tag string) []byte {
	n := 1
	if !c35OneBlock {
		n = sym.Int(tag+"_len", 1, 2)
	}
	uk := make([]byte, n)
	for i := range uk {
		uk[i] = sym.U8(tag + "_byte")
	}
	return kv.InternalKey(kv.CFDefault, uk, uint64(sym.SymInt(tag+"_version", 1, 3)))
}

// c35OneBlock: fixed block size 4096 (C14 entry); c35CacheOn: a block cache that
// keeps every block handed to it (one legal behaviour of the real cache).
var (
	c35OneBlock bool
	c35CacheOn  bool
	c35Blocks   map[uint64]*block
)

func c35BlockCacheGet(c *blockCache, key uint64) (*block, bool) {
	b, ok := c35Blocks[key]
	return b, ok && b != nil
}
func c35BlockCacheAdd(c *blockCache, level int, tbl *table, key uint64, blk *block) {
	if blk == nil {
		return
	}
	if c35Blocks == nil {
		c35Blocks = map[uint64]*block{}
	}
	c35Blocks[key] = blk
}

func c35LM() (*levelManager, func()) {
	opt := &Options{SSTableMaxSz: 1 << 20, BloomFalsePositive: 0, BlockCacheSize: 1024}
	bs := 2
	if !c35OneBlock {
		bs = sym.Int("block_size", 0, 2)
	}
	// every entry its own block | about two entries per block | one block
	switch bs {
	case 0:
		opt.BlockSize = 1
	case 1:
		opt.BlockSize = 70
	default:
		opt.BlockSize = 4096
	}
	if sym.Symbolic() {
		file.VerifResetFiles()
		opt.WorkDir = ""
		c35Blocks = nil
		if c35CacheOn {
			return &levelManager{opt: opt, cache: &cache{blocks: &blockCache{}, metrics: &metrics.CacheCounters{}}}, func() {}
		}
		return &levelManager{opt: opt, cache: &cache{}}, func() {}
	}
	dir, err := os.MkdirTemp("", "verif-sst-")
	if err != nil {
		panic(err)
	}
	opt.WorkDir = dir
	return &levelManager{opt: opt, cache: newCache(opt)}, func() { _ = os.RemoveAll(dir) }
}

func c35Build(lm *levelManager) (*table, []c35Rec, string) {
	n := 2
	if sym.Tier() > 0 {
		n = 3
	}
	tb := newTableBuiler(lm.opt)
	var spec []c35Rec
	for i := 0; i < n; i++ {
		k := c35Key("key")
		if i > 0 {
			sym.Assume(utils.CompareKeys(spec[i-1].key, k) < 0) // the builder's contract: strictly increasing keys
		}
		var v []byte
		if !c35OneBlock && sym.Int("large_value", 0, 1) == 1 {
			v = make([]byte, 80) // an entry larger than the small and the medium block size
			v[0], v[79] = sym.U8("payload"), sym.U8("payload")
		} else {
			v = []byte{sym.U8("payload")}
		}
		tb.AddKey(&kv.Entry{Key: k, Value: v})
		spec = append(spec, c35Rec{key: k, val: v})
	}
	name := utils.FileNameSSTable(lm.opt.WorkDir, 7)
	t := openTable(lm, name, tb)
	sym.Assert(t != nil, "table-opens")
	return t, spec, name
}

func c35Same(e *kv.Entry, r c35Rec) bool {
	return sym.And(sym.BytesEq(e.Key, r.key), sym.BytesEq(e.Value, r.val))
}

func c35Check(t *table, spec []c35Rec, what int) {
	switch what {
	case 0: // point lookup of every stored key and of an arbitrary probe
		for _, r := range spec {
			var maxVs uint64
			e, err := t.Search(r.key, &maxVs)
			sym.Assert(err == nil && e != nil && c35Same(e, r), "every-stored-key-is-found")
		}
		probe := c35Key("probe")
		var want *c35Rec
		for i := range spec {
			if utils.CompareKeys(spec[i].key, probe) >= 0 {
				if kv.SameKey(probe, spec[i].key) {
					want = &spec[i]
				}
				break
			}
		}
		var maxVs uint64
		e, err := t.Search(probe, &maxVs)
		if want == nil {
			sym.Assert(err == utils.ErrKeyNotFound, "search-returns-first-version-at-or-below-probe")
		} else {
			sym.Assert(err == nil && e != nil && c35Same(e, *want), "search-returns-first-version-at-or-below-probe")
		}
	case 1: // full scan, both directions
		asc := sym.Int("ascending", 0, 1) == 1
		it := t.NewIterator(&utils.Options{IsAsc: asc})
		i := 0
		for it.Rewind(); it.Valid(); it.Next() {
			sym.Assert(i < len(spec), "scan-yields-exactly-the-entries-in-order")
			want := spec[i]
			if !asc {
				want = spec[len(spec)-1-i]
			}
			sym.Assert(c35Same(it.Item().Entry(), want), "scan-yields-exactly-the-entries-in-order")
			i++
		}
		sym.Assert(i == len(spec), "scan-yields-exactly-the-entries-in-order")
		_ = it.Close()
	case 2: // seek
		asc := sym.Int("ascending", 0, 1) == 1
		probe := c35Key("probe")
		it := t.NewIterator(&utils.Options{IsAsc: asc})
		it.Seek(probe)
		want := -1
		if asc {
			for i := range spec {
				if utils.CompareKeys(spec[i].key, probe) >= 0 {
					want = i
					break
				}
			}
		} else {
			for i := len(spec) - 1; i >= 0; i-- {
				if utils.CompareKeys(spec[i].key, probe) <= 0 {
					want = i
					break
				}
			}
		}
		if want < 0 {
			sym.Assert(!it.Valid(), "seek-lands-on-the-first-entry-at-or-after-the-target")
		} else {
			sym.Assert(it.Valid(), "seek-lands-on-the-first-entry-at-or-after-the-target")
			sym.Assert(c35Same(it.Item().Entry(), spec[want]), "seek-lands-on-the-first-entry-at-or-after-the-target")
		}
		_ = it.Close()
	}
}

func c35Run(what int) {
	lm, cleanup := c35LM()
	defer cleanup()
	t, spec, name := c35Build(lm)
	if sym.Int("reopen", 0, 1) == 1 {
		// a second handle on the same file, opened the way a restart opens it
		t2 := openTable(lm, name, nil)
		sym.Assert(t2 != nil, "table-opens")
		sym.Assert(sym.BytesEq(t2.MinKey(), spec[0].key) && sym.BytesEq(t2.MaxKey(), spec[len(spec)-1].key), "reopened-table-has-the-same-key-range")
		t = t2
	} else {
		sym.Assert(sym.BytesEq(t.MinKey(), spec[0].key) && sym.BytesEq(t.MaxKey(), spec[len(spec)-1].key), "table-key-range-is-first-to-last-entry")
	}
	c35Check(t, spec, what)
	sym.Reached("end")
}

func VerifC35Search() { c35Run(0) }
func VerifC35Scan()   { c35Run(1) }
func VerifC35Seek()   { c35Run(2) }

// ---- C14: a corrupted data block is detected, also on the second read ----
//
// A table with one data block (2 symbolic entries); then ONE byte of that block
// — any position except the 4-byte checksum-length trailer (framing, see DESIGN
// 9.2 C14) — is XORed with an arbitrary non-zero mask on the file. Every lookup
// afterwards, the first and the repeated one (block cache on), either reports an
// error or returns the stored entry unchanged: never silently something else.
func VerifC14SSTBlockCorruption() {
	c35OneBlock, c35CacheOn = true, true
	lm, cleanup := c35LM()
	defer cleanup()
	t, spec, name := c35Build(lm)
	c35OneBlock, c35CacheOn = false, false
	offs := t.index().GetOffsets()
	_ = t
	sym.Assert(len(offs) == 1, "one-data-block")
	blockLen := int(offs[0].GetLen())
	pos := sym.Int("corrupted_byte", 0, blockLen-5)
	mask := sym.U8("xor_mask")
	sym.Assume(mask != 0)
	if sym.Symbolic() {
		data := file.VerifFileBytes(name)
		data[pos] ^= mask
	} else {
		f, err := os.OpenFile(name, os.O_RDWR, 0)
		if err != nil {
			panic(err)
		}
		var b [1]byte
		if _, err := f.ReadAt(b[:], int64(pos)); err != nil {
			panic(err)
		}
		b[0] ^= mask
		if _, err := f.WriteAt(b[:], int64(pos)); err != nil {
			panic(err)
		}
		_ = f.Close()
	}
	// the corrupted file is opened afresh (as after a restart: new handle, empty caches)
	c35Blocks = nil
	lm2 := &levelManager{opt: lm.opt, cache: &cache{blocks: &blockCache{}, metrics: &metrics.CacheCounters{}}}
	if !sym.Symbolic() {
		lm2.cache = newCache(lm.opt)
	}
	var t2 *table
	sym.NoPanic("corrupted-block-never-panics-the-reader", func() { t2 = openTable(lm2, name, nil) })
	if t2 == nil {
		sym.Reached("end") // refused at open: detected
		return
	}
	which := sym.Int("looked_up_entry", 0, len(spec)-1)
	for round := 0; round < 2; round++ {
		if round == 1 && !sym.Symbolic() {
			time.Sleep(30 * time.Millisecond) // the real block cache admits entries asynchronously
		}
		var maxVs uint64
		var e *kv.Entry
		var err error
		sym.NoPanic("corrupted-block-never-panics-the-reader", func() { e, err = t2.Search(spec[which].key, &maxVs) })
		sym.Assert(err != nil || (e != nil && c35Same(e, spec[which])), "corruption-detected-or-data-intact")
	}
	sym.Reached("end")
}
