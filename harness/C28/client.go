//go:build verif

package client

import (
	"context"
	"errors"

	NoKV "github.com/feichai0017/NoKV"
	sym "github.com/feichai0017/NoKV/internal/verifsym"
	"github.com/feichai0017/NoKV/pb"
	rkv "github.com/feichai0017/NoKV/raftstore/kv"
	"google.golang.org/grpc"
)

// ---- one store serving two regions, backed by the real request handlers ----

type c28Store struct {
	db     *NoKV.DB
	calls  int
	failAt int // the RPC with this number (1-based) fails before reaching the store; 0 = none
	// the RPCs numbered notLeaderFrom .. notLeaderFrom+notLeaderCount-1 are answered
	// with a NotLeader region error (the region's leader moved; the request was not applied)
	notLeaderFrom, notLeaderCount int
	// beforeFirstCommit runs once, when the first commit request reaches the store
	// and before it is processed (something else happened between the two phases)
	beforeFirstCommit func()
}

var errC28RPC = errors.New("rpc: connection lost")

func (s *c28Store) rpc() error {
	s.calls++
	if s.calls == s.failAt {
		return errC28RPC
	}
	return nil
}

func (s *c28Store) regionError() *pb.RegionError {
	if s.notLeaderFrom > 0 && s.calls >= s.notLeaderFrom && s.calls < s.notLeaderFrom+s.notLeaderCount {
		return &pb.RegionError{NotLeader: &pb.NotLeader{Leader: &pb.RegionPeer{StoreId: 1, PeerId: 11}}}
	}
	return nil
}

func (s *c28Store) apply(r *pb.Request) *pb.Response {
	resp, err := rkv.Apply(s.db, &pb.RaftCmdRequest{Requests: []*pb.Request{r}})
	sym.Assert(err == nil && resp != nil && len(resp.Responses) == 1, "apply-ok")
	return resp.Responses[0]
}

func (s *c28Store) KvGet(ctx context.Context, in *pb.KvGetRequest, opts ...grpc.CallOption) (*pb.KvGetResponse, error) {
	r := s.apply(&pb.Request{CmdType: pb.CmdType_CMD_GET, Cmd: &pb.Request_Get{Get: in.GetRequest()}})
	return &pb.KvGetResponse{Response: r.GetGet()}, nil
}
func (s *c28Store) KvBatchGet(ctx context.Context, in *pb.KvBatchGetRequest, opts ...grpc.CallOption) (*pb.KvBatchGetResponse, error) {
	return nil, errors.New("not used")
}
func (s *c28Store) KvScan(ctx context.Context, in *pb.KvScanRequest, opts ...grpc.CallOption) (*pb.KvScanResponse, error) {
	return nil, errors.New("not used")
}
func (s *c28Store) KvPrewrite(ctx context.Context, in *pb.KvPrewriteRequest, opts ...grpc.CallOption) (*pb.KvPrewriteResponse, error) {
	if err := s.rpc(); err != nil {
		return nil, err
	}
	if re := s.regionError(); re != nil {
		return &pb.KvPrewriteResponse{RegionError: re}, nil
	}
	r := s.apply(&pb.Request{CmdType: pb.CmdType_CMD_PREWRITE, Cmd: &pb.Request_Prewrite{Prewrite: in.GetRequest()}})
	return &pb.KvPrewriteResponse{Response: r.GetPrewrite()}, nil
}
func (s *c28Store) KvCommit(ctx context.Context, in *pb.KvCommitRequest, opts ...grpc.CallOption) (*pb.KvCommitResponse, error) {
	if err := s.rpc(); err != nil {
		return nil, err
	}
	if re := s.regionError(); re != nil {
		return &pb.KvCommitResponse{RegionError: re}, nil
	}
	if h := s.beforeFirstCommit; h != nil {
		s.beforeFirstCommit = nil
		h()
	}
	r := s.apply(&pb.Request{CmdType: pb.CmdType_CMD_COMMIT, Cmd: &pb.Request_Commit{Commit: in.GetRequest()}})
	return &pb.KvCommitResponse{Response: r.GetCommit()}, nil
}
func (s *c28Store) KvBatchRollback(ctx context.Context, in *pb.KvBatchRollbackRequest, opts ...grpc.CallOption) (*pb.KvBatchRollbackResponse, error) {
	r := s.apply(&pb.Request{CmdType: pb.CmdType_CMD_BATCH_ROLLBACK, Cmd: &pb.Request_BatchRollback{BatchRollback: in.GetRequest()}})
	return &pb.KvBatchRollbackResponse{Response: r.GetBatchRollback()}, nil
}
func (s *c28Store) KvResolveLock(ctx context.Context, in *pb.KvResolveLockRequest, opts ...grpc.CallOption) (*pb.KvResolveLockResponse, error) {
	r := s.apply(&pb.Request{CmdType: pb.CmdType_CMD_RESOLVE_LOCK, Cmd: &pb.Request_ResolveLock{ResolveLock: in.GetRequest()}})
	return &pb.KvResolveLockResponse{Response: r.GetResolveLock()}, nil
}
func (s *c28Store) KvCheckTxnStatus(ctx context.Context, in *pb.KvCheckTxnStatusRequest, opts ...grpc.CallOption) (*pb.KvCheckTxnStatusResponse, error) {
	r := s.apply(&pb.Request{CmdType: pb.CmdType_CMD_CHECK_TXN_STATUS, Cmd: &pb.Request_CheckTxnStatus{CheckTxnStatus: in.GetRequest()}})
	return &pb.KvCheckTxnStatusResponse{Response: r.GetCheckTxnStatus()}, nil
}

type c28Resolver struct{}

func (c28Resolver) GetRegionByKey(ctx context.Context, req *pb.GetRegionByKeyRequest) (*pb.GetRegionByKeyResponse, error) {
	return &pb.GetRegionByKeyResponse{NotFound: true}, nil
}
func (c28Resolver) Close() error { return nil }

func c28Client(st *c28Store) *Client {
	peers := []*pb.RegionPeer{{StoreId: 1, PeerId: 11}}
	return &Client{
		stores: map[uint64]*storeConn{1: {addr: "model", client: st}},
		regions: map[uint64]*regionState{
			1: {meta: &pb.RegionMeta{Id: 1, StartKey: nil, EndKey: []byte("m"), EpochVersion: 1, EpochConfVersion: 1, Peers: peers}, leader: 1},
			2: {meta: &pb.RegionMeta{Id: 2, StartKey: []byte("m"), EndKey: nil, EpochVersion: 1, EpochConfVersion: 1, Peers: peers}, leader: 1},
		},
		regionResolver:     c28Resolver{},
		routeLookupTimeout: 1,
		maxRetries:         2,
	}
}

func (s *c28Store) read(key string, ts uint64) (found bool, locked bool, val []byte) {
	r := s.apply(&pb.Request{CmdType: pb.CmdType_CMD_GET, Cmd: &pb.Request_Get{Get: &pb.GetRequest{Key: []byte(key), Version: ts}}}).GetGet()
	if r.GetError() != nil {
		return false, true, nil
	}
	return !r.GetNotFound(), false, r.GetValue()
}

// A multi-region mutation either becomes fully visible at its commit version
// or — if it fails before its primary commits — never becomes visible once its
// locks are resolved. Faults: any one RPC of the 2PC is lost; another client's
// status check may expire the primary lock between prewrite and commit.
func VerifC28Atomic() {
	db := NoKV.VerifOpenModelDB()
	defer NoKV.VerifCloseModelDB(db)
	st := &c28Store{db: db}
	cl := c28Client(st)
	ctx := context.Background()

	// keys a, b live in region 1, key x in region 2; the primary is any of region 1's keys
	keys := []string{"a", "b", "x"}
	nk := sym.Int("nkeys", 2, 3)
	primary := keys[sym.Int("primary", 0, 1)]
	payload := sym.U8("payload")
	var muts []*pb.Mutation
	for _, k := range keys[:nk] {
		muts = append(muts, &pb.Mutation{Op: pb.Mutation_Put, Key: []byte(k), Value: []byte{payload, k[0]}})
	}
	if sym.Int("primary_listed_last", 0, 1) == 1 {
		// the caller lists the primary after the other keys of its region
		muts[0], muts[1] = muts[1], muts[0]
	}
	// versions and lock lifetime are symbolic (one varint byte each, see DESIGN 9.1)
	start := uint64(sym.SymInt("start_version", 1, 60))
	commit := uint64(sym.SymInt("commit_version", 2, 120))
	sym.Assume(commit > start)
	ttl := uint64(sym.SymInt("lock_ttl", 0, 20))
	st.failAt = sym.Int("lost_rpc", 0, 4)
	expire := sym.Int("status_check_between_phases", 0, 1) == 1
	if st.notLeaderFrom = sym.Int("not_leader_from_rpc", 0, 4); st.notLeaderFrom > 0 {
		// the region's leader keeps moving: 1..maxRetries consecutive attempts are turned away
		st.notLeaderCount = sym.Int("not_leader_count", 1, 2)
	}

	if expire {
		// another client finds the primary lock expired after the prewrites (the 2PC
		// client is slow); its status check reaches the store just before the first
		// commit request
		st.beforeFirstCommit = func() {
			r := st.apply(&pb.Request{CmdType: pb.CmdType_CMD_CHECK_TXN_STATUS, Cmd: &pb.Request_CheckTxnStatus{CheckTxnStatus: &pb.CheckTxnStatusRequest{
				PrimaryKey: []byte(primary), LockTs: start, CurrentTs: uint64(sym.SymInt("status_check_current_ts", 0, 127)), CallerStartTs: 127, RollbackIfNotExist: true}}})
			sym.Assert(r.GetCheckTxnStatus().GetError() == nil, "status-check-ok")
		}
	}
	err := cl.TwoPhaseCommit(ctx, []byte(primary), muts, start, commit, ttl)
	// resolution by whoever finds the leftovers: ask the primary, then resolve every key accordingly
	st.failAt, st.notLeaderFrom = 0, 0
	status, serr := cl.CheckTxnStatus(ctx, []byte(primary), start, 1000)
	sym.Assert(serr == nil && status != nil, "resolution-status-ok")
	var allKeys [][]byte
	for _, k := range keys[:nk] {
		allKeys = append(allKeys, []byte(k))
	}
	_, rerr := cl.ResolveLocks(ctx, start, status.GetCommitVersion(), allKeys)
	sym.Assert(rerr == nil, "resolution-ok")

	// all or nothing at the commit version
	visible := 0
	for _, k := range keys[:nk] {
		found, locked, val := st.read(k, 1000)
		sym.Assert(!locked, "no-lock-left-after-resolution")
		if found && len(val) == 2 && val[0] == payload && val[1] == k[0] {
			visible++
		}
	}
	sym.Assert(visible == 0 || visible == nk, "all-or-nothing-after-resolution")
	if err == nil {
		sym.Assert(visible == nk, "successful-mutation-fully-visible")
	}
	if status.GetCommitVersion() == 0 {
		sym.Assert(visible == 0, "not-visible-unless-primary-committed")
	}
	sym.Reached("end")
}
