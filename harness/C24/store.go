//go:build verif

package store

import (
	"fmt"

	"github.com/feichai0017/NoKV/internal/verifstubs/memfs"
	sym "github.com/feichai0017/NoKV/internal/verifsym"
	"github.com/feichai0017/NoKV/manifest"
	"github.com/feichai0017/NoKV/pb"
	myraft "github.com/feichai0017/NoKV/raft"
	"github.com/feichai0017/NoKV/raftstore/peer"
)

type c24NoopTransport struct{}

func (c24NoopTransport) Send(myraft.Message) {}

// c24StartPeerStub stands in for (*Store).StartPeer inside the engine: it
// performs exactly the catalog part of the real function (peer construction,
// router registration and raft bootstrap are outside the kernel). The native
// replay runs the real StartPeer.
func c24StartPeerStub(s *Store, cfg *peer.Config, bootstrapPeers []myraft.Peer) (*peer.Peer, error) {
	if cfg == nil {
		return nil, fmt.Errorf("raftstore: peer config is nil")
	}
	if cfg.Region != nil {
		if cfg.Region.State == 0 {
			cfg.Region.State = manifest.RegionStateRunning
		}
		meta := manifest.CloneRegionMetaPtr(cfg.Region)
		if err := s.UpdateRegion(*meta); err != nil {
			return nil, err
		}
	}
	return nil, nil
}

// c24BuilderFails: the peer builder refuses the next region (e.g. this store
// holds no replica of it), so a split has to undo its parent update.
var c24BuilderFails bool

func c24Builder(meta manifest.RegionMeta) (*peer.Config, error) {
	if c24BuilderFails {
		return nil, fmt.Errorf("peer builder: no replica of region %d on this store", meta.ID)
	}
	return &peer.Config{
		RaftConfig: myraft.Config{ID: 100 + meta.ID, ElectionTick: 5, HeartbeatTick: 1, MaxSizePerMsg: 1 << 20, MaxInflightMsgs: 256, PreVote: true},
		Transport:  c24NoopTransport{},
		Apply:      func([]myraft.Entry) error { return nil },
		GroupID:    meta.ID,
		Region:     manifest.CloneRegionMetaPtr(&meta),
	}, nil
}

func c24Key(name string, minLen int) []byte {
	n := sym.Int(name+"_len", minLen, 2)
	if n == 0 {
		return nil
	}
	return sym.Bytes(name, n)
}

func c24Less(a, b []byte) bool { return sym.BytesLess(a, b) }

// key in [start,end); empty start / end = unbounded
func c24In(m manifest.RegionMeta, k []byte) bool {
	lo := len(m.StartKey) == 0 || !c24Less(k, m.StartKey)
	hi := len(m.EndKey) == 0 || c24Less(k, m.EndKey)
	return sym.And(lo, hi)
}

func c24Covered(ms []manifest.RegionMeta, k []byte) bool {
	c := false
	for _, m := range ms {
		c = sym.Or(c, c24In(m, k))
	}
	return c
}

// c24Disjoint: no key lies in two regions. Decided with a second symbolic probe.
func c24DisjointAt(ms []manifest.RegionMeta, k []byte) bool {
	ok := true
	for i := range ms {
		for j := i + 1; j < len(ms); j++ {
			ok = sym.And(ok, !sym.And(c24In(ms[i], k), c24In(ms[j], k)))
		}
	}
	return ok
}

type c24World struct {
	s    *Store
	fs   *memfs.FS
	mgr  *manifest.Manager
	init []manifest.RegionMeta
}

// c24Setup registers a partition of 2..3 adjacent regions with symbolic
// boundaries (first start / last end possibly unbounded) through UpdateRegion.
func c24Setup() *c24World {
	w := &c24World{fs: memfs.New()}
	mgr, err := manifest.Open("/m", w.fs)
	sym.Assert(err == nil, "manifest-open")
	w.mgr = mgr
	w.s = &Store{router: NewRouter(), peers: newPeerSet(), regions: newRegionManager(mgr, RegionHooks{}), manifest: mgr, peerBuilder: c24Builder, storeID: 1}
	n := sym.Int("nregions", 2, 3)
	bounds := make([][]byte, n+1)
	bounds[0] = c24Key("b0", 0)
	for i := 1; i < n; i++ {
		bounds[i] = c24Key(fmt.Sprintf("b%d", i), 1)
	}
	bounds[n] = c24Key(fmt.Sprintf("b%d", n), 0)
	for i := 0; i+1 <= n; i++ {
		lo, hi := bounds[i], bounds[i+1]
		if len(lo) > 0 && len(hi) > 0 {
			sym.Assume(c24Less(lo, hi))
		}
	}
	if n == 3 && len(bounds[0]) == 0 && len(bounds[3]) == 0 {
		// b1 < b2 already assumed
	}
	for i := 0; i < n; i++ {
		m := manifest.RegionMeta{ID: uint64(i + 1), StartKey: bounds[i], EndKey: bounds[i+1],
			Epoch: manifest.RegionEpoch{Version: uint64(sym.SymInt("ver", 1, 100)), ConfVersion: 1}, State: manifest.RegionStateRunning,
			Peers: []manifest.PeerMeta{{StoreID: 1, PeerID: uint64(10 + i)}}}
		sym.Assert(w.s.UpdateRegion(m) == nil, "setup-update-ok")
		w.init = append(w.init, m)
	}
	return w
}

func (w *c24World) byID(ms []manifest.RegionMeta, id uint64) (manifest.RegionMeta, bool) {
	for _, m := range ms {
		if m.ID == id {
			return m, true
		}
	}
	return manifest.RegionMeta{}, false
}

// checkAfter asserts partition, coverage, epochs and reload after one operation.
// removed: the region whose range legitimately leaves the covered space (or nil).
func (w *c24World) checkAfter(removed *manifest.RegionMeta) {
	after := w.s.RegionMetas()
	probe := c24Key("probe", 0)
	sym.Assert(c24DisjointAt(after, probe), "regions-disjoint")
	before := c24Covered(w.init, probe)
	now := c24Covered(after, probe)
	if removed != nil {
		before = sym.And(before, !c24In(*removed, probe))
	}
	sym.Assert(before == now, "coverage-unchanged")
	for _, m := range after {
		old, ok := w.byID(w.init, m.ID)
		if !ok {
			continue
		}
		changed := !sym.And(sym.BytesEq(old.StartKey, m.StartKey), sym.BytesEq(old.EndKey, m.EndKey))
		sym.Assert(sym.Implies(changed, m.Epoch.Version > old.Epoch.Version), "epoch-increases-on-change")
		sym.Assert(m.Epoch.Version >= old.Epoch.Version && m.State >= old.State, "epoch-and-state-never-regress")
	}
	// reload
	sym.Assert(w.mgr.Close() == nil, "manifest-close")
	m2, err := manifest.Open("/m", w.fs)
	sym.Assert(err == nil, "manifest-reopen")
	snap := m2.RegionSnapshot()
	sym.Assert(len(snap) == len(after), "reload-same-regions")
	for _, m := range after {
		r, ok := snap[m.ID]
		same := ok && sym.And(sym.And(sym.BytesEq(r.StartKey, m.StartKey), sym.BytesEq(r.EndKey, m.EndKey)), sym.And(r.Epoch == m.Epoch, r.State == m.State))
		sym.Assert(same, "reload-identical")
	}
}

// Split through the replicated admin command.
func VerifC24Split() {
	w := c24Setup()
	parent := w.init[sym.Int("parent", 0, len(w.init)-1)]
	splitKey := c24Key("split", 0)
	child := manifest.RegionMeta{ID: 9, StartKey: splitKey, EndKey: parent.EndKey,
		Epoch: manifest.RegionEpoch{Version: 1, ConfVersion: 1}, Peers: []manifest.PeerMeta{{StoreID: 1, PeerID: 19}}}
	cmd := &pb.SplitCommand{ParentRegionId: parent.ID, SplitKey: splitKey, Child: regionMetaToPB(child)}
	if sym.Int("child_start_from_split_key", 0, 1) == 1 {
		cmd.Child.StartKey = nil
	}
	// the child peer may fail to start (the split then has to leave the catalog as it was)
	c24BuilderFails = sym.Int("child_peer_fails_to_start", 0, 1) == 1
	err := w.s.handleSplitCommand(cmd)
	if c24BuilderFails {
		sym.Assert(err != nil, "failed-child-start-is-reported")
	}
	c24BuilderFails = false
	if err != nil {
		sym.Reached("split-refused")
	} else {
		sym.Reached("split-done")
	}
	w.checkAfter(nil)
	sym.Reached("end")
}

// Merge through the replicated admin command, any ordered pair of regions.
func VerifC24Merge() {
	w := c24Setup()
	ti := sym.Int("target", 0, len(w.init)-1)
	si := sym.Int("source", 0, len(w.init)-1)
	sym.Assume(ti != si)
	target, source := w.init[ti], w.init[si]
	// the only merge the code handles: the source is the target's right neighbour
	sym.Finding("MergeSourceNotRightNeighbour", si != ti+1)
	err := w.s.handleMergeCommand(&pb.MergeCommand{TargetRegionId: target.ID, SourceRegionId: source.ID})
	if err != nil {
		sym.Reached("merge-refused")
	} else {
		sym.Reached("merge-done")
	}
	w.checkAfter(nil)
	sym.Reached("end")
}

// Removal: the covered space shrinks by exactly the removed range.
func VerifC24Remove() {
	w := c24Setup()
	victim := w.init[sym.Int("victim", 0, len(w.init)-1)]
	err := w.s.RemoveRegion(victim.ID)
	sym.Assert(err == nil, "remove-ok")
	_, still := w.s.RegionMetaByID(victim.ID)
	sym.Assert(!still, "removed-gone")
	w.checkAfter(&victim)
	sym.Reached("end")
}

// Region state only moves forward: new < running < removing < tombstone.
func VerifC24StateForward() {
	cur, next := manifest.RegionState(sym.U8("cur")), manifest.RegionState(sym.U8("next"))
	ok := validRegionStateTransition(cur, next)
	sym.Assert(sym.Implies(ok, next >= cur), "state-only-forward")
	sym.Assert(sym.Implies(sym.And(ok, cur <= manifest.RegionStateTombstone), next <= manifest.RegionStateTombstone), "state-stays-defined")
	sym.Reached("end")
}

// ... and through the catalog: UpdateRegionState with any state value.
func VerifC24CatalogState() {
	w := c24Setup()
	id := w.init[0].ID
	st := manifest.RegionState(sym.Int("newstate", 0, 4))
	err := w.s.UpdateRegionState(id, st)
	m, found := w.s.RegionMetaByID(id)
	sym.Assert(found && m.State >= manifest.RegionStateRunning, "catalog-state-never-regresses")
	if err == nil && st != 0 {
		sym.Assert(m.State == st, "catalog-state-applied")
	}
	sym.Reached("end")
}
