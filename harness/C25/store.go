//go:build verif

package store

import (
	sym "github.com/feichai0017/NoKV/internal/verifsym"
	"github.com/feichai0017/NoKV/manifest"
	"github.com/feichai0017/NoKV/pb"
)

func c25Key(name string) []byte {
	n := sym.Int(name+"_len", 0, 2)
	if n == 0 {
		return nil
	}
	return sym.Bytes(name, n)
}

// c25InRange is the reference predicate: key in [start,end), an empty bound is unbounded.
func c25InRange(meta manifest.RegionMeta, key []byte) bool {
	lo := len(meta.StartKey) == 0 || !sym.BytesLess(key, meta.StartKey)
	hi := len(meta.EndKey) == 0 || sym.BytesLess(key, meta.EndKey)
	return sym.And(lo, hi)
}

func c25Meta() manifest.RegionMeta {
	meta := manifest.RegionMeta{ID: 1, StartKey: c25Key("start"), EndKey: c25Key("end"),
		Epoch: manifest.RegionEpoch{Version: sym.U64("ver"), ConfVersion: sym.U64("confver")}}
	// well-formed region: start < end unless a bound is empty
	if len(meta.StartKey) > 0 && len(meta.EndKey) > 0 {
		sym.Assume(sym.BytesLess(meta.StartKey, meta.EndKey))
	}
	return meta
}

// A command is accepted iff it carries the region's current epoch and every
// non-empty key it names lies inside the region's range.
func VerifC25Accept() {
	meta := c25Meta()
	var reqEpoch *pb.RegionEpoch
	if sym.Int("has_epoch", 0, 1) == 1 {
		reqEpoch = &pb.RegionEpoch{ConfVer: sym.U64("req_confver"), Version: sym.U64("req_ver")}
	}
	nreq := sym.Int("nreq", 1, 2)
	req := &pb.RaftCmdRequest{Header: &pb.CmdHeader{RegionId: 1, RegionEpoch: reqEpoch}}
	allIn := true
	known := true
	note := func(k []byte) {
		if len(k) > 0 {
			allIn = sym.And(allIn, c25InRange(meta, k))
		}
	}
	for i := 0; i < nreq; i++ {
		kind := sym.Int("kind", 0, 8)
		r := &pb.Request{CmdType: pb.CmdType(kind)}
		switch pb.CmdType(kind) {
		case pb.CmdType_CMD_GET:
			k := c25Key("k")
			r.Cmd = &pb.Request_Get{Get: &pb.GetRequest{Key: k}}
			note(k)
		case pb.CmdType_CMD_SCAN:
			k := c25Key("k")
			r.Cmd = &pb.Request_Scan{Scan: &pb.ScanRequest{StartKey: k}}
			note(k)
		case pb.CmdType_CMD_PREWRITE:
			k1, k2 := c25Key("k"), c25Key("k2")
			r.Cmd = &pb.Request_Prewrite{Prewrite: &pb.PrewriteRequest{Mutations: []*pb.Mutation{{Key: k1}, nil, {Key: k2}}}}
			note(k1)
			note(k2)
		case pb.CmdType_CMD_COMMIT:
			k1, k2 := c25Key("k"), c25Key("k2")
			r.Cmd = &pb.Request_Commit{Commit: &pb.CommitRequest{Keys: [][]byte{k1, k2}}}
			note(k1)
			note(k2)
		case pb.CmdType_CMD_BATCH_ROLLBACK:
			k1, k2 := c25Key("k"), c25Key("k2")
			r.Cmd = &pb.Request_BatchRollback{BatchRollback: &pb.BatchRollbackRequest{Keys: [][]byte{k1, k2}}}
			note(k1)
			note(k2)
		case pb.CmdType_CMD_RESOLVE_LOCK:
			k1, k2 := c25Key("k"), c25Key("k2")
			r.Cmd = &pb.Request_ResolveLock{ResolveLock: &pb.ResolveLockRequest{Keys: [][]byte{k1, k2}}}
			note(k1)
			note(k2)
		case pb.CmdType_CMD_CHECK_TXN_STATUS:
			k := c25Key("k")
			r.Cmd = &pb.Request_CheckTxnStatus{CheckTxnStatus: &pb.CheckTxnStatusRequest{PrimaryKey: k}}
			note(k)
		default:
			known = false // invalid / unknown command types are refused
		}
		req.Requests = append(req.Requests, r)
	}
	accepted := validateRegionEpoch(req.Header.GetRegionEpoch(), meta) == nil && validateRequestKeys(meta, req) == nil
	epochOK := reqEpoch != nil && reqEpoch.ConfVer == meta.Epoch.ConfVersion && reqEpoch.Version == meta.Epoch.Version
	want := sym.And(sym.And(epochOK, known), allIn)
	sym.Assert(accepted == want, "accept-iff-epoch-and-keys")
	sym.Reached("end")
}

// Scan results returned through a region never contain keys outside its range,
// and every in-range result is kept, in order.
func VerifC25TrimScan() {
	meta := c25Meta()
	k1, k2, k3 := c25Key("r1"), c25Key("r2"), c25Key("r3")
	req := &pb.RaftCmdRequest{Requests: []*pb.Request{{CmdType: pb.CmdType_CMD_SCAN, Cmd: &pb.Request_Scan{Scan: &pb.ScanRequest{}}}}}
	kvs := []*pb.KV{{Key: k1}, {Key: k2}, nil, {Key: k3}}
	resp := &pb.RaftCmdResponse{Responses: []*pb.Response{{Cmd: &pb.Response_Scan{Scan: &pb.ScanResponse{Kvs: kvs}}}}}
	trimScanResponse(meta, req, resp)
	out := resp.Responses[0].GetScan().Kvs
	// reference: in-range inputs in order (an empty key counts as in range, as in keyInRange)
	var want [][]byte
	for _, k := range [][]byte{k1, k2, k3} {
		in := len(k) == 0 || c25InRange(meta, k)
		if in { // forks: fine, 3 keys
			want = append(want, k)
		}
	}
	sym.Assert(len(out) == len(want), "trim-count")
	if len(out) == len(want) {
		for i := range out {
			sym.Assert(sym.BytesEq(out[i].Key, want[i]), "trim-keeps-in-range-in-order")
			if len(out[i].Key) > 0 {
				sym.Assert(c25InRange(meta, out[i].Key), "trim-subset-of-range")
			}
		}
	}
	sym.Reached("end")
}
