//go:build verif

package utils

import (
	"unsafe"

	sym "github.com/feichai0017/NoKV/internal/verifsym"
)

// Typed model of utils.Arena for the engine (C07 and the memtable kernels).
//
// The real arena hands out offsets into byte chunks and casts chunk addresses to
// *node / *artNode / *nodePayload through unsafe.Pointer, which the engine's
// object-graph memory cannot express. The model keeps what the arena is FOR:
//   * offsets are produced by the real allocate/allocAligned/putNode/putKey/putVal
//     (real code, real sizes and alignment arithmetic);
//   * bytesAt(offset, n) is a window of one model byte buffer per arena;
//   * a struct "at" an offset is an ordinary heap object remembered per
//     (arena, offset): the same offset always yields the same object, distinct
//     offsets yield distinct objects.
// Only the functions that touch unsafe.Pointer are replaced (see spec "replace");
// skiplist and ART code runs unmodified on top. Natively the real arena is used.

type verifArenaModel struct {
	a        *Arena
	buf      []byte
	nodes    map[uint32]*node
	artNodes map[uint32]*artNode
	payloads map[uint32]*nodePayload
	u32s     map[uint32][]uint32
}

const verifArenaBytes = 1 << 16

var verifArenas []*verifArenaModel

func verifArenaOf(a *Arena) *verifArenaModel {
	for _, m := range verifArenas {
		if m.a == a {
			return m
		}
	}
	m := &verifArenaModel{a: a, buf: make([]byte, verifArenaBytes),
		nodes: map[uint32]*node{}, artNodes: map[uint32]*artNode{}, payloads: map[uint32]*nodePayload{}, u32s: map[uint32][]uint32{}}
	verifArenas = append(verifArenas, m)
	return m
}

func verifNewArena(n int64) *Arena {
	a := &Arena{n: 1, chunkSize: uint32(minArenaChunkSize)}
	verifArenaOf(a)
	return a
}

func verifArenaEnsureChunk(s *Arena, idx uint32) {
	sym.Assert(idx == 0, "arena-model-large-enough")
}

func verifArenaBytesAt(s *Arena, offset uint32, length int) []byte {
	if s == nil || length <= 0 || offset == 0 {
		return nil
	}
	m := verifArenaOf(s)
	sym.Assert(int(offset)+length <= len(m.buf), "arena-model-large-enough")
	return m.buf[int(offset) : int(offset)+length : int(offset)+length]
}

func verifArenaGetNode(s *Arena, offset uint32) *node {
	if offset == 0 {
		return nil
	}
	m := verifArenaOf(s)
	if n, ok := m.nodes[offset]; ok {
		return n
	}
	n := &node{}
	m.nodes[offset] = n
	return n
}

func verifArenaAllocUint32Slice(s *Arena, length, capacity int) []uint32 {
	if s == nil || capacity <= 0 {
		return nil
	}
	if length < 0 {
		length = 0
	}
	if length > capacity {
		length = capacity
	}
	off := s.allocAligned(4*capacity, 4)
	raw := make([]uint32, capacity)
	verifArenaOf(s).u32s[off] = raw
	return raw[:length:capacity]
}

func verifArenaAllocNode(arena *Arena) *artNode {
	if arena == nil {
		return nil
	}
	offset := arena.allocAligned(int(unsafe.Sizeof(artNode{})), int(unsafe.Alignof(artNode{})))
	n := verifArenaNodeFromOffset(arena, offset)
	n.self = offset
	return n
}

func verifArenaAllocPayload(arena *Arena) *nodePayload {
	if arena == nil {
		return nil
	}
	offset := arena.allocAligned(int(unsafe.Sizeof(nodePayload{})), int(unsafe.Alignof(nodePayload{})))
	p := verifArenaPayloadFromOffset(arena, offset)
	p.self = offset
	return p
}

func verifArenaNodeFromOffset(arena *Arena, offset uint32) *artNode {
	if arena == nil || offset == 0 {
		return nil
	}
	m := verifArenaOf(arena)
	if n, ok := m.artNodes[offset]; ok {
		return n
	}
	n := &artNode{}
	m.artNodes[offset] = n
	return n
}

func verifArenaPayloadFromOffset(arena *Arena, offset uint32) *nodePayload {
	if arena == nil || offset == 0 {
		return nil
	}
	m := verifArenaOf(arena)
	if p, ok := m.payloads[offset]; ok {
		return p
	}
	p := &nodePayload{}
	m.payloads[offset] = p
	return p
}

// randomHeight: the tower height of a new skiplist node is arbitrary in 1..2.
func verifSkiplistRandomHeight(s *Skiplist) int {
	if VerifSkiplistHeightOne {
		return 1
	}
	return 1 + sym.Int("skiplist_tower_height", 0, 1)
}

// VerifSkiplistHeightOne: kernels above the memtable index (C01/C02) do not
// re-explore tower heights (C07 does).
var VerifSkiplistHeightOne bool

// utils.Pool (ants goroutine pool + expvar counters): every task is its own thread.
func verifNewPool(size int, name string) *Pool { return &Pool{size: size} }
func verifPoolSubmit(pl *Pool, fn func()) error {
	if fn == nil {
		return nil
	}
	go fn()
	return nil
}
