//go:build verif

package NoKV

// Model of the transactional KV API for the Redis gateway harnesses (C29/C30).
// Inside the engine DB.Update / DB.View / DB.Get and Txn.Get / SetEntry / Delete
// are REPLACED (spec.json "replace") by these functions: a map from key to the
// newest entry, writes of an Update staged and applied atomically when the
// callback returns nil. That is the contract C03/C04 state for the real
// transaction layer; the native replay runs the real DB.

import (
	"os"

	sym "github.com/feichai0017/NoKV/internal/verifsym"
	"github.com/feichai0017/NoKV/kv"
	"github.com/feichai0017/NoKV/utils"
)

type verifKVRec struct {
	key       []byte
	value     []byte
	expiresAt uint64
	deleted   bool
}

type verifKVStore struct {
	recs    []*verifKVRec
	pending []*verifKVRec
	inTxn   bool
}

var verifKV = &verifKVStore{}

// VerifOpenKVModelDB: zero DB inside the engine, a real DB natively.
func VerifOpenKVModelDB(detectConflicts bool) *DB {
	if sym.Symbolic() {
		verifKV = &verifKVStore{}
		return &DB{}
	}
	dir, err := os.MkdirTemp("", "verif-kv-")
	if err != nil {
		panic(err)
	}
	opt := NewDefaultOptions()
	opt.WorkDir = dir
	opt.EnableWALWatchdog = false
	opt.ValueLogGCInterval = 0
	opt.DetectConflicts = detectConflicts
	return Open(opt)
}

func verifKVFind(list []*verifKVRec, key []byte) *verifKVRec {
	for i := len(list) - 1; i >= 0; i-- {
		if string(list[i].key) == string(key) {
			return list[i]
		}
	}
	return nil
}

func verifKVEntry(r *verifKVRec) *kv.Entry {
	e := &kv.Entry{Key: kv.SafeCopy(nil, r.key), Value: append([]byte{}, r.value...), ExpiresAt: r.expiresAt, CF: kv.CFDefault, Version: 1}
	if r.deleted {
		e.Meta = kv.BitDelete
	}
	return e
}

func verifDBUpdate(db *DB, fn func(txn *Txn) error) error {
	verifKV.pending = nil
	verifKV.inTxn = true
	err := fn(&Txn{})
	verifKV.inTxn = false
	if err != nil {
		verifKV.pending = nil
		return err
	}
	verifKV.recs = append(verifKV.recs, verifKV.pending...)
	verifKV.pending = nil
	return nil
}

func verifDBView(db *DB, fn func(txn *Txn) error) error {
	return fn(&Txn{})
}

func verifLookup(key []byte) (*kv.Entry, error) {
	if len(key) == 0 {
		return nil, utils.ErrEmptyKey
	}
	r := verifKVFind(verifKV.pending, key)
	if r == nil {
		r = verifKVFind(verifKV.recs, key)
	}
	if r == nil || r.deleted || kv.IsDeletedOrExpired(0, r.expiresAt) {
		return nil, utils.ErrKeyNotFound
	}
	return verifKVEntry(r), nil
}

func verifDBGet(db *DB, key []byte) (*kv.Entry, error) { return verifLookup(key) }

func verifTxnGet(txn *Txn, key []byte) (*Item, error) {
	e, err := verifLookup(key)
	if err != nil {
		return nil, err
	}
	return &Item{e: e}, nil
}

func verifTxnSetEntry(txn *Txn, e *kv.Entry) error {
	if len(e.Key) == 0 {
		return utils.ErrEmptyKey
	}
	verifKV.pending = append(verifKV.pending, &verifKVRec{key: kv.SafeCopy(nil, e.Key), value: append([]byte{}, e.Value...), expiresAt: e.ExpiresAt})
	return nil
}

func verifTxnDelete(txn *Txn, key []byte) error {
	if len(key) == 0 {
		return utils.ErrEmptyKey
	}
	verifKV.pending = append(verifKV.pending, &verifKVRec{key: kv.SafeCopy(nil, key), deleted: true})
	return nil
}
