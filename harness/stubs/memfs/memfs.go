//go:build verif

// Package memfs is the model file system of the verification harnesses: an
// in-memory vfs.FS whose files are byte slices (concrete length, possibly
// symbolic content). It is ordinary Go: the gosym engine interprets it
// symbolically, the native replay runs it as is.
//
// Durability model: PROCESS CRASH. Every byte handed to the file system
// (Write/WriteAt/Truncate/Rename/Remove/create/WriteFile) survives; bytes still
// sitting in user-space buffers (bufio.Writer) do not. Sync is therefore not a
// state change. A crash can be injected before any mutating effect and, in
// byte mode, after any prefix of a Write: the decision is a harness input
// (sym.Int "crash"/"cut"), so one solver-closed path exists per crash point.
package memfs

import (
	"errors"
	"io"
	"os"
	"path/filepath"
	"sort"
	"strings"
	"syscall"
	"time"

	sym "github.com/feichai0017/NoKV/internal/verifsym"
	"github.com/feichai0017/NoKV/vfs"
)

const (
	CrashOff    = 0
	CrashEffect = 1 // crash before any mutating effect
	CrashByte   = 2 // additionally after any prefix of a Write
)

// Crash is the panic value that models the death of the process.
type Crash struct{}

type inode struct {
	data []byte
}

type Effect struct {
	Kind string
	Path string
	N    int
}

type FS struct {
	files   map[string]*inode
	dirs    map[string]bool
	Mode    int
	Crashed bool
	Effects int
	Trace   []Effect
	// FailRemove makes Remove return an error (fault injection, no crash).
	FailRemove bool
	// YieldOnOps makes every FS / File call except Read/Write/Seek a scheduling
	// point (concurrency mode; the native replay instruments the same calls).
	YieldOnOps bool
}

func (fs *FS) yield() {
	if fs.YieldOnOps {
		sym.Yield()
	}
}

// ---- flock(2) model: locks belong to open file descriptions and attach to inodes ----

type description struct {
	ino    *inode
	closed bool
}

var (
	descriptions = map[int]*description{}
	nextFD       = 100
	lockHolder   = map[*inode]*description{}
)

const (
	lockEX = 2
	lockNB = 4
	lockUN = 8
)

var errWouldBlock = syscall.EWOULDBLOCK

// Flock models syscall.Flock for descriptors handed out by memfs files
// (installed in place of syscall.Flock inside the engine).
func Flock(fd int, how int) error {
	sym.Yield()
	d, ok := descriptions[fd]
	if !ok || d.closed {
		return syscall.EBADF
	}
	if how&lockUN != 0 {
		if lockHolder[d.ino] == d {
			delete(lockHolder, d.ino)
		}
		return nil
	}
	if h, held := lockHolder[d.ino]; held && h != d {
		return errWouldBlock // LOCK_NB
	}
	lockHolder[d.ino] = d
	return nil
}

// Fd implements vfs.FDProvider.
func (f *File) Fd() uintptr {
	if f.fd == 0 {
		nextFD++
		f.fd = nextFD
		descriptions[f.fd] = &description{ino: f.ino}
	}
	return uintptr(f.fd)
}

var _ vfs.FS = (*FS)(nil)

func New() *FS {
	return &FS{files: map[string]*inode{}, dirs: map[string]bool{}}
}

// Run executes f as "the process"; it returns true if the process crashed.
func Run(fs *FS, f func()) (crashed bool) {
	defer func() {
		if r := recover(); r != nil {
			if _, ok := r.(Crash); ok {
				crashed = true
				return
			}
			panic(r)
		}
	}()
	f()
	return false
}

// Reboot ends the crashed state: the surviving directory is what is in fs now.
func (fs *FS) Reboot() {
	fs.Crashed = false
	fs.Mode = CrashOff
}

// step is called before every mutating effect of n units (bytes for writes, 1
// otherwise); it returns how many units are applied before the process dies
// (n = no crash).
func (fs *FS) step(kind, path string, n int) int {
	if fs.Crashed {
		panic(Crash{})
	}
	fs.Effects++
	fs.Trace = append(fs.Trace, Effect{kind, path, n})
	if fs.Mode == CrashOff {
		return n
	}
	if sym.Int("crash", 0, 1) == 0 {
		return n
	}
	k := 0
	if fs.Mode == CrashByte && kind == "write" && n > 1 {
		k = sym.Int("cut", 0, n-1)
	}
	fs.Crashed = true
	return k
}

func (fs *FS) die() { panic(Crash{}) }

// CrashNow lets a harness kill the process at a point of its own choosing.
func (fs *FS) CrashNow() {
	fs.Crashed = true
	panic(Crash{})
}

func clean(p string) string { return filepath.Clean(p) }

func notExist(op, name string) error {
	return &os.PathError{Op: op, Path: name, Err: os.ErrNotExist}
}

// ---- FS ----

func (fs *FS) OpenHandle(name string) (vfs.File, error) {
	fs.yield()
	name = clean(name)
	if fs.dirs[name] {
		return &File{fs: fs, name: name, dir: true}, nil
	}
	ino, ok := fs.files[name]
	if !ok {
		return nil, notExist("open", name)
	}
	return &File{fs: fs, ino: ino, name: name, rdonly: true}, nil
}

func (fs *FS) OpenFileHandle(name string, flag int, perm os.FileMode) (vfs.File, error) {
	fs.yield()
	name = clean(name)
	if fs.dirs[name] {
		return &File{fs: fs, name: name, dir: true}, nil
	}
	ino, ok := fs.files[name]
	if !ok {
		if flag&os.O_CREATE == 0 {
			return nil, notExist("open", name)
		}
		if fs.step("create", name, 1) == 0 {
			fs.die()
		}
		ino = &inode{}
		fs.files[name] = ino
	} else {
		if flag&os.O_CREATE != 0 && flag&os.O_EXCL != 0 {
			return nil, &os.PathError{Op: "open", Path: name, Err: os.ErrExist}
		}
		if flag&os.O_TRUNC != 0 && len(ino.data) > 0 {
			if fs.step("truncate", name, 1) == 0 {
				fs.die()
			}
			ino.data = nil
		}
	}
	f := &File{fs: fs, ino: ino, name: name, appendMode: flag&os.O_APPEND != 0}
	if flag&(os.O_WRONLY|os.O_RDWR) == 0 {
		f.rdonly = true
	}
	return f, nil
}

func (fs *FS) MkdirAll(path string, perm os.FileMode) error {
	fs.yield()
	path = clean(path)
	for p := path; p != "." && p != "/" && p != ""; p = filepath.Dir(p) {
		fs.dirs[p] = true
	}
	return nil
}

func (fs *FS) RemoveAll(path string) error {
	fs.yield()
	path = clean(path)
	var doomed []string
	for name := range fs.files {
		if name == path || strings.HasPrefix(name, path+"/") {
			doomed = append(doomed, name)
		}
	}
	sort.Strings(doomed)
	for _, name := range doomed {
		if fs.step("remove", name, 1) == 0 {
			fs.die()
		}
		delete(fs.files, name)
	}
	for d := range fs.dirs {
		if d == path || strings.HasPrefix(d, path+"/") {
			delete(fs.dirs, d)
		}
	}
	return nil
}

func (fs *FS) Remove(name string) error {
	fs.yield()
	name = clean(name)
	if _, ok := fs.files[name]; !ok {
		if fs.dirs[name] {
			delete(fs.dirs, name)
			return nil
		}
		return notExist("remove", name)
	}
	if fs.FailRemove {
		return &os.PathError{Op: "remove", Path: name, Err: os.ErrPermission}
	}
	if fs.step("remove", name, 1) == 0 {
		fs.die()
	}
	delete(fs.files, name)
	return nil
}

func (fs *FS) Rename(oldPath, newPath string) error {
	fs.yield()
	oldPath, newPath = clean(oldPath), clean(newPath)
	ino, ok := fs.files[oldPath]
	if !ok {
		return notExist("rename", oldPath)
	}
	if fs.step("rename", oldPath, 1) == 0 {
		fs.die()
	}
	delete(fs.files, oldPath)
	fs.files[newPath] = ino
	return nil
}

func (fs *FS) Stat(name string) (os.FileInfo, error) {
	fs.yield()
	name = clean(name)
	if fs.dirs[name] {
		return fileInfo{name: filepath.Base(name), dir: true}, nil
	}
	ino, ok := fs.files[name]
	if !ok {
		return nil, notExist("stat", name)
	}
	return fileInfo{name: filepath.Base(name), size: int64(len(ino.data)), ino: ino}, nil
}

func (fs *FS) names(dir string) []string {
	var out []string
	for name := range fs.files {
		if filepath.Dir(name) == dir {
			out = append(out, name)
		}
	}
	sort.Strings(out)
	return out
}

func (fs *FS) ReadDir(name string) ([]os.DirEntry, error) {
	fs.yield()
	name = clean(name)
	if !fs.dirs[name] {
		return nil, notExist("readdir", name)
	}
	var out []os.DirEntry
	for _, n := range fs.names(name) {
		out = append(out, dirEntry{fileInfo{name: filepath.Base(n), size: int64(len(fs.files[n].data))}})
	}
	return out, nil
}

func (fs *FS) ReadFile(name string) ([]byte, error) {
	fs.yield()
	name = clean(name)
	ino, ok := fs.files[name]
	if !ok {
		return nil, notExist("open", name)
	}
	out := make([]byte, len(ino.data))
	copy(out, ino.data)
	return out, nil
}

func (fs *FS) WriteFile(name string, data []byte, perm os.FileMode) error {
	fs.yield()
	saved := fs.YieldOnOps
	fs.YieldOnOps = false // one vfs call = one scheduling point
	defer func() { fs.YieldOnOps = saved }()
	f, err := fs.OpenFileHandle(name, os.O_WRONLY|os.O_CREATE|os.O_TRUNC, perm)
	if err != nil {
		return err
	}
	_, err = f.Write(data)
	if err1 := f.Close(); err1 != nil && err == nil {
		err = err1
	}
	return err
}

func (fs *FS) Truncate(name string, size int64) error {
	fs.yield()
	name = clean(name)
	ino, ok := fs.files[name]
	if !ok {
		return notExist("truncate", name)
	}
	return fs.truncate(ino, name, size)
}

func (fs *FS) truncate(ino *inode, name string, size int64) error {
	if size < 0 {
		return errors.New("memfs: negative truncate")
	}
	if int64(len(ino.data)) == size {
		return nil
	}
	if fs.step("truncate", name, 1) == 0 {
		fs.die()
	}
	if size <= int64(len(ino.data)) {
		ino.data = ino.data[:size:size]
		return nil
	}
	nd := make([]byte, size)
	copy(nd, ino.data)
	ino.data = nd
	return nil
}

func (fs *FS) Glob(pattern string) ([]string, error) {
	fs.yield()
	dir := filepath.Dir(pattern)
	var out []string
	for _, name := range fs.names(clean(dir)) {
		ok, err := filepath.Match(pattern, name)
		if err != nil {
			return nil, err
		}
		if ok {
			out = append(out, name)
		}
	}
	return out, nil
}

func (fs *FS) Hostname() (string, error) { fs.yield(); return "verif", nil }

// ---- harness-side accessors (not part of vfs.FS) ----

func (fs *FS) Exists(name string) bool { _, ok := fs.files[clean(name)]; return ok }

func (fs *FS) Data(name string) []byte {
	if ino, ok := fs.files[clean(name)]; ok {
		return ino.data
	}
	return nil
}

// SetData installs file content directly (no effect, no crash point).
func (fs *FS) SetData(name string, data []byte) {
	name = clean(name)
	fs.MkdirAll(filepath.Dir(name), 0o755)
	fs.files[name] = &inode{data: data}
}

func (fs *FS) Size(name string) int {
	if ino, ok := fs.files[clean(name)]; ok {
		return len(ino.data)
	}
	return -1
}

func (fs *FS) Files() []string {
	var out []string
	for name := range fs.files {
		out = append(out, name)
	}
	sort.Strings(out)
	return out
}

// ---- File ----

type File struct {
	fs         *FS
	ino        *inode
	name       string
	pos        int64
	closed     bool
	rdonly     bool
	dir        bool
	appendMode bool
	fd         int
}

var _ vfs.File = (*File)(nil)

func (f *File) Read(p []byte) (int, error) {
	if f.closed {
		return 0, os.ErrClosed
	}
	if f.dir {
		return 0, errors.New("memfs: is a directory")
	}
	if f.pos >= int64(len(f.ino.data)) {
		if len(p) == 0 {
			return 0, nil
		}
		return 0, io.EOF
	}
	n := copy(p, f.ino.data[f.pos:])
	f.pos += int64(n)
	return n, nil
}

func (f *File) ReadAt(p []byte, off int64) (int, error) {
	if f.closed {
		return 0, os.ErrClosed
	}
	if off < 0 {
		return 0, errors.New("memfs: negative offset")
	}
	if off >= int64(len(f.ino.data)) {
		return 0, io.EOF
	}
	n := copy(p, f.ino.data[off:])
	if n < len(p) {
		return n, io.EOF
	}
	return n, nil
}

func (f *File) writeAt(p []byte, off int64) int {
	end := off + int64(len(p))
	if end > int64(len(f.ino.data)) {
		nd := make([]byte, end)
		copy(nd, f.ino.data)
		f.ino.data = nd
	}
	return copy(f.ino.data[off:], p)
}

func (f *File) Write(p []byte) (int, error) {
	if f.closed {
		return 0, os.ErrClosed
	}
	if f.rdonly || f.dir {
		return 0, &os.PathError{Op: "write", Path: f.name, Err: os.ErrPermission}
	}
	if len(p) == 0 {
		return 0, nil
	}
	if f.appendMode {
		f.pos = int64(len(f.ino.data))
	}
	k := f.fs.step("write", f.name, len(p))
	if k > 0 {
		f.writeAt(p[:k], f.pos)
		f.pos += int64(k)
	}
	if k < len(p) {
		f.fs.die()
	}
	return len(p), nil
}

func (f *File) WriteAt(p []byte, off int64) (int, error) {
	if f.closed {
		return 0, os.ErrClosed
	}
	if f.rdonly || f.dir {
		return 0, &os.PathError{Op: "write", Path: f.name, Err: os.ErrPermission}
	}
	if len(p) == 0 {
		return 0, nil
	}
	k := f.fs.step("write", f.name, len(p))
	if k > 0 {
		f.writeAt(p[:k], off)
	}
	if k < len(p) {
		f.fs.die()
	}
	return len(p), nil
}

func (f *File) Seek(offset int64, whence int) (int64, error) {
	if f.closed {
		return 0, os.ErrClosed
	}
	var base int64
	switch whence {
	case io.SeekStart:
	case io.SeekCurrent:
		base = f.pos
	case io.SeekEnd:
		base = int64(len(f.ino.data))
	default:
		return 0, errors.New("memfs: bad whence")
	}
	if base+offset < 0 {
		return 0, errors.New("memfs: negative position")
	}
	f.pos = base + offset
	return f.pos, nil
}

func (f *File) Close() error {
	f.fs.yield()
	if f.closed {
		return os.ErrClosed
	}
	f.closed = true
	if d, ok := descriptions[f.fd]; ok && f.fd != 0 {
		// closing the description drops its flock
		d.closed = true
		if lockHolder[d.ino] == d {
			delete(lockHolder, d.ino)
		}
	}
	return nil
}

func (f *File) Stat() (os.FileInfo, error) {
	f.fs.yield()
	if f.closed {
		return nil, os.ErrClosed
	}
	if f.dir {
		return fileInfo{name: filepath.Base(f.name), dir: true}, nil
	}
	return fileInfo{name: filepath.Base(f.name), size: int64(len(f.ino.data)), ino: f.ino}, nil
}

func (f *File) Sync() error {
	f.fs.yield()
	if f.closed {
		return os.ErrClosed
	}
	if f.fs.Crashed {
		f.fs.die()
	}
	f.fs.Trace = append(f.fs.Trace, Effect{"sync", f.name, 0})
	return nil
}

func (f *File) Truncate(size int64) error {
	f.fs.yield()
	if f.closed {
		return os.ErrClosed
	}
	if f.rdonly || f.dir {
		return &os.PathError{Op: "truncate", Path: f.name, Err: os.ErrPermission}
	}
	return f.fs.truncate(f.ino, f.name, size)
}

func (f *File) Name() string { return f.name }

// ---- FileInfo / DirEntry ----

type fileInfo struct {
	name string
	size int64
	dir  bool
	ino  *inode
}

// SameFile models os.SameFile for memfs file infos (installed in place of
// os.SameFile inside the engine): same inode.
func SameFile(a, b os.FileInfo) bool {
	x, ok1 := a.(fileInfo)
	y, ok2 := b.(fileInfo)
	return ok1 && ok2 && x.ino != nil && x.ino == y.ino
}

func (fi fileInfo) Name() string { return fi.name }
func (fi fileInfo) Size() int64  { return fi.size }
func (fi fileInfo) Mode() os.FileMode {
	if fi.dir {
		return os.ModeDir | 0o755
	}
	return 0o644
}
func (fi fileInfo) ModTime() time.Time { return time.Time{} }
func (fi fileInfo) IsDir() bool        { return fi.dir }
func (fi fileInfo) Sys() any           { return nil }

type dirEntry struct{ fi fileInfo }

func (d dirEntry) Name() string               { return d.fi.name }
func (d dirEntry) IsDir() bool                { return d.fi.dir }
func (d dirEntry) Type() os.FileMode          { return d.fi.Mode().Type() }
func (d dirEntry) Info() (os.FileInfo, error) { return d.fi, nil }
