//go:build verif

package lsm

import (
	"fmt"
	"os"
	"time"
	"path/filepath"
	"strings"
	"sync"
	"sync/atomic"

	sym "github.com/feichai0017/NoKV/internal/verifsym"
	"github.com/feichai0017/NoKV/kv"
	"github.com/feichai0017/NoKV/lsm/compact"
	"github.com/feichai0017/NoKV/lsm/flush"
	"github.com/feichai0017/NoKV/manifest"
	"github.com/feichai0017/NoKV/pb"
	"github.com/feichai0017/NoKV/utils"
	"github.com/feichai0017/NoKV/vfs"
	"github.com/feichai0017/NoKV/wal"
)

// Model SST tables for the engine: the REAL LSM write path (Set/SetBatch,
// memtables over the real skiplist/ART, Rotate, flush manager and flush worker,
// levelManager.flush, levelHandler.add) and read path (LSM.Get, GetMemTables,
// levelManager.Get, levelHandler.Get, searchL0SST, table.Search) run; only what
// touches files is replaced (see spec "replace"):
//   tableBuilder.AddKey      -> remembers the entry
//   openTable                -> a *table whose content is the remembered list
//   table.index              -> an index without bloom filter
//   table.NewIterator        -> iterator over that list
//   manifest.Manager.LogEdits, wal.Manager.Append/SwitchSegment/RemoveSegment -> succeed
//   utils.FileNameSSTable / utils.FID -> fid <-> "<fid>.sst" without fmt
// Natively a real LSM is opened in a temporary directory.

type verifTableData struct {
	t    *table
	ents []*kv.Entry
}
type verifBuilderData struct {
	b       *tableBuilder
	ents    []*kv.Entry
	pending int64 // size of the block that is still open (counted when the next entry closes it)
}

var (
	verifTables   []*verifTableData
	verifBuilders []*verifBuilderData
	// verifFlushGate: a flush may build its table only while the gate is open
	// (engine: the flush worker waits in openTable; natively: a FaultFS hook blocks
	// the creation of .sst files)
	verifFlushGate atomic.Bool
	verifGateMu    sync.Mutex
	verifGateCond  *sync.Cond
	// engine-side twin of verifFlushGate
	verifGateOpenGhost bool
)

func verifOpenGate() {
	if sym.Symbolic() {
		verifGateOpenGhost = true
		return
	}
	verifGateMu.Lock()
	verifFlushGate.Store(true)
	verifGateCond.Broadcast()
	verifGateMu.Unlock()
}

// verifBuilderAdd stands in for tableBuilder.add (reached through AddKey,
// AddKeyWithLen, AddStaleKey, AddStaleEntryWithLen).
func verifBuilderAdd(tb *tableBuilder, e *kv.Entry, valueLen uint32, isStale bool) {
	d := verifBuilderAddKey(tb, e)
	tb.keyHashes = append(tb.keyHashes, 0)
	// as the real builder with one entry per block (native twin: BlockSize 1): the
	// size estimate grows when an entry closes the previous block
	tb.estimateSz += d.pending
	d.pending = int64(len(e.Key) + len(e.Value) + 16)
	if isStale {
		tb.staleDataSize += len(e.Key) + int(valueLen) + 8
	}
}

func verifBuilderAddKey(tb *tableBuilder, e *kv.Entry) *verifBuilderData {
	var d *verifBuilderData
	for _, x := range verifBuilders {
		if x.b == tb {
			d = x
		}
	}
	if d == nil {
		d = &verifBuilderData{b: tb}
		verifBuilders = append(verifBuilders, d)
	}
	c := &kv.Entry{Key: kv.SafeCopy(nil, e.Key), Value: kv.SafeCopy(nil, e.Value), Meta: e.Meta, ExpiresAt: e.ExpiresAt, CF: e.CF}
	c.Version = kv.ParseTs(c.Key)
	d.ents = append(d.ents, c)
	tb.keyCount++
	if c.Version > tb.maxVersion {
		tb.maxVersion = c.Version
	}
	return d
}

func verifOpenTable(lm *levelManager, tableName string, builder *tableBuilder) *table {
	sym.WaitUntil(func() bool { return verifGateOpenGhost }) // engine only (plain ghost flag: wait conditions are one step)
	var ents []*kv.Entry
	for _, x := range verifBuilders {
		if x.b == builder {
			ents = x.ents
		}
	}
	sym.Assert(len(ents) > 0, "model-table-built-from-a-builder")
	t := &table{lm: lm, fid: verifFID(tableName), ref: 1}
	t.minKey = ents[0].Key
	t.maxKey = ents[len(ents)-1].Key
	t.keyCount = uint32(len(ents))
	for _, e := range ents {
		t.size += int64(len(e.Key) + len(e.Value) + 16)
		if e.Version > t.maxVersion {
			t.maxVersion = e.Version
		}
	}
	verifTables = append(verifTables, &verifTableData{t: t, ents: ents})
	return t
}

func verifTableIndex(t *table) *pb.TableIndex { return &pb.TableIndex{} }

type verifTableIter struct {
	ents []*kv.Entry
	asc  bool
	pos  int
}

func verifTableNewIterator(t *table, opt *utils.Options) utils.Iterator {
	asc := true
	if opt != nil {
		asc = opt.IsAsc
	}
	for _, x := range verifTables {
		if x.t == t {
			return &verifTableIter{ents: x.ents, asc: asc}
		}
	}
	sym.Assert(false, "model-table-known")
	return nil
}

func (it *verifTableIter) Next() {
	if it.asc {
		it.pos++
	} else {
		it.pos--
	}
}
func (it *verifTableIter) Valid() bool { return it.pos >= 0 && it.pos < len(it.ents) }
func (it *verifTableIter) Rewind() {
	if it.asc {
		it.pos = 0
	} else {
		it.pos = len(it.ents) - 1
	}
}
func (it *verifTableIter) Item() utils.Item { return verifTableItem{it.ents[it.pos]} }
func (it *verifTableIter) Close() error     { return nil }
func (it *verifTableIter) Seek(key []byte) {
	if it.asc {
		it.pos = len(it.ents)
		for i, e := range it.ents {
			if utils.CompareKeys(e.Key, key) >= 0 {
				it.pos = i
				return
			}
		}
		return
	}
	it.pos = -1
	for i := len(it.ents) - 1; i >= 0; i-- {
		if utils.CompareKeys(it.ents[i].Key, key) <= 0 {
			it.pos = i
			return
		}
	}
}

type verifTableItem struct{ e *kv.Entry }

func (i verifTableItem) Entry() *kv.Entry { return i.e }

func verifTableDelete(t *table) error { return nil }
func verifSyncDir(fs vfs.FS, dir string) error { return nil }

// verifBlockSize: block size of the native LSM (1 = every entry its own block).
var verifBlockSize = 4 << 10

// verifCompactFileSz: target size of the tables a compaction writes (1 = a new
// output table is started at every user key).
var verifCompactFileSz int64 = 2 << 20

// VerifCompact runs one maintenance step of the real compaction code
// (levelManager.doCompact: L0 -> ingest buffer of the last level | drain that
// ingest buffer into the level's main tables | merge the ingest buffer in
// place) with the flush gate open, and reports whether it had anything to do.
func (v *VerifLSM) VerifCompact(level int, mode compact.IngestMode) bool {
	last := v.L.option.MaxLevelNum - 1
	n := v.L.option.MaxLevelNum
	t := compact.Targets{BaseLevel: last, TargetSz: make([]int64, n), FileSz: make([]int64, n)}
	for i := range t.TargetSz {
		t.TargetSz[i], t.FileSz[i] = 10<<20, verifCompactFileSz
	}
	verifOpenGate()
	err := v.L.levels.doCompact(0, compact.Priority{Level: level, Score: 5, Adjusted: 5, Target: t, IngestMode: mode})
	verifFlushGate.Store(false)
	verifGateOpenGhost = false
	if err != nil {
		sym.Assert(err == utils.ErrFillTables, "compaction-step-succeeds-or-has-nothing-to-do")
		return false
	}
	return true
}

// fault injection and recording for the WAL clean-up kernel (C36)
var (
	VerifFailManifest   bool     // the next manifest.LogEdits fails (I/O error)
	VerifManifestFailed int      // how many did
	VerifRemovedWAL     []uint32 // segments handed to wal.RemoveSegment
)

func verifManifestLogEdits(m *manifest.Manager, edits ...manifest.Edit) error {
	if VerifFailManifest {
		VerifFailManifest = false
		VerifManifestFailed++
		return errVerifManifestIO
	}
	return nil
}

var errVerifManifestIO = os.ErrClosed

func verifWalAppend(m *wal.Manager, payloads ...[]byte) ([]wal.EntryInfo, error) {
	infos := make([]wal.EntryInfo, len(payloads))
	for i, p := range payloads {
		infos[i] = wal.EntryInfo{Length: uint32(len(p)), Type: wal.RecordTypeEntry}
	}
	return infos, nil
}
func verifWalSwitchSegment(m *wal.Manager, id uint32, truncate bool) error { return nil }
func verifWalRemoveSegment(m *wal.Manager, id uint32) error {
	VerifRemovedWAL = append(VerifRemovedWAL, id)
	return nil
}

// fid <-> table name without fmt/strconv: "<decimal fid>.sst"
func verifFileNameSSTable(dir string, id uint64) string {
	var digits []byte
	if id == 0 {
		digits = []byte{'0'}
	}
	for id > 0 {
		digits = append([]byte{byte('0' + id%10)}, digits...)
		id /= 10
	}
	return string(digits) + ".sst"
}
func verifFID(name string) uint64 {
	var id uint64
	for i := 0; i < len(name) && name[i] >= '0' && name[i] <= '9'; i++ {
		id = id*10 + uint64(name[i]-'0')
	}
	return id
}

// VerifLSM is a handle on the LSM under test.
type VerifLSM struct {
	L   *LSM
	dir string
	wal *wal.Manager
}

// verifLevels: number of levels of the engine-side LSM (2 = L0 + one level;
// 3 when compaction steps are part of the harness).
var verifLevels = 2

// VerifOpenLSM: engine = "skiplist" or "art".
func VerifOpenLSM(engine string) *VerifLSM {
	verifFlushGate.Store(false)
	verifGateOpenGhost = false
	opt := &Options{
		MemTableSize:        1 << 20,
		MemTableEngine:      engine,
		SSTableMaxSz:        1 << 20,
		BlockSize:           verifBlockSize,
		BloomFalsePositive:  0.01,
		BaseLevelSize:       10 << 20,
		LevelSizeMultiplier: 10,
		BaseTableSize:       2 << 20,
		TableSizeMultiplier: 2,
		NumLevelZeroTables:  15,
		MaxLevelNum:         7,
		NumCompactors:       1,
	}
	if sym.Symbolic() {
		utils.VerifSkiplistHeightOne = true
		verifTables, verifBuilders = nil, nil
		VerifFailManifest, VerifManifestFailed, VerifRemovedWAL = false, 0, nil
		opt.MaxLevelNum = verifLevels
		l := &LSM{option: opt}
		l.flushMgr = flush.NewManager()
		dc := make(chan map[manifest.ValueLogID]int64, 16)
		opt.DiscardStatsCh = &dc
		lm := &levelManager{lsm: l, opt: opt}
		lm.compactState = l.newCompactStatus()
		if opt.IngestCompactBatchSize <= 0 {
			opt.IngestCompactBatchSize = 4
		}
		for i := 0; i < opt.MaxLevelNum; i++ {
			lm.levels = append(lm.levels, &levelHandler{levelNum: i, lm: lm})
		}
		l.levels = lm
		l.memTable = l.NewMemtable()
		l.startFlushWorkers(1)
		l.closer = utils.NewCloser()
		return &VerifLSM{L: l}
	}
	verifGateCond = sync.NewCond(&verifGateMu)
	dir, err := os.MkdirTemp("", "verif-lsm-")
	if err != nil {
		panic(err)
	}
	opt.WorkDir = dir
	// the gate: creating an .sst file blocks while the gate is closed
	opt.FS = vfs.NewFaultFS(vfs.OSFS{}, func(op vfs.Op, path string) error {
		if VerifFailManifest && op == vfs.OpFileWrite && strings.HasPrefix(filepath.Base(path), "MANIFEST") {
			VerifFailManifest = false
			VerifManifestFailed++
			return errVerifManifestIO
		}
		if filepath.Ext(path) == ".sst" && (op == vfs.OpOpenFile || op == vfs.OpOpen) {
			verifGateMu.Lock()
			for !verifFlushGate.Load() {
				verifGateCond.Wait()
			}
			verifGateMu.Unlock()
		}
		return nil
	})
	w, err := wal.Open(wal.Config{Dir: dir})
	if err != nil {
		panic(err)
	}
	return &VerifLSM{L: NewLSM(opt, w), dir: dir, wal: w}
}

// FlushAll lets the flush worker flush every sealed memtable and waits for it.
func (v *VerifLSM) FlushAll() {
	verifOpenGate()
	sym.WaitUntil(func() bool {
		if sym.Symbolic() { // the engine evaluates wait conditions in one step: no locking inside
			return len(v.L.immutables) == 0
		}
		v.L.lock.RLock()
		n := len(v.L.immutables)
		v.L.lock.RUnlock()
		return n == 0
	})
	verifFlushGate.Store(false)
	verifGateOpenGhost = false
}

func (v *VerifLSM) Close() {
	verifOpenGate()
	if sym.Symbolic() {
		_ = v.L.flushMgr.Close()
		v.L.flushWG.Wait()
		return
	}
	_ = v.L.Close()
	_ = v.wal.Close()
	_ = os.RemoveAll(v.dir)
}

// FlushAllExpectingFailure opens the gate and lets the flush worker run until the
// injected manifest failure has happened and the worker is idle again.
func (v *VerifLSM) FlushAllExpectingFailure() {
	verifOpenGate()
	if sym.Symbolic() {
		sym.WaitUntil(func() bool { return VerifManifestFailed > 0 })
	} else {
		for i := 0; i < 400 && (VerifManifestFailed == 0 || v.L.flushMgr.Stats().Active > 0); i++ {
			time.Sleep(5 * time.Millisecond)
		}
		time.Sleep(20 * time.Millisecond)
	}
	verifFlushGate.Store(false)
	verifGateOpenGhost = false
}

// WALSegmentGone: has the memtable segment with this id been removed?
func (v *VerifLSM) WALSegmentGone(id uint32) bool {
	if sym.Symbolic() {
		for _, r := range VerifRemovedWAL {
			if r == id {
				return true
			}
		}
		return false
	}
	_, err := os.Stat(filepath.Join(v.dir, fmt.Sprintf("%05d.wal", id)))
	return os.IsNotExist(err)
}
