//go:build verif

package file

import (
	"github.com/feichai0017/NoKV/utils"
	"github.com/feichai0017/NoKV/vfs"
)

// Model of the mmap'd SST file for the engine (C35): a file is a byte slice
// remembered by name, so that a table can be written, read and REOPENED. The
// real SSTable.initTable (footer parsing, index checksum, index decoding) and
// MmapFile.Bytes/View run on it. Natively the real mmap file is used.

var verifFiles map[string][]byte

func verifOpenMmapFile(fs vfs.FS, filename string, flag int, maxSz int) (*MmapFile, error) {
	if verifFiles == nil {
		verifFiles = map[string][]byte{}
	}
	data, ok := verifFiles[filename]
	if !ok {
		data = make([]byte, maxSz)
		verifFiles[filename] = data
	}
	return &MmapFile{Data: data}, nil
}

// VerifResetFiles forgets every model file.
func VerifResetFiles() { verifFiles = nil }

func verifSSTableSize(ss *SSTable) int64 { return int64(len(ss.f.Data)) }

// verifSSTableInit = SSTable.Init without the stat(2) call for the creation time.
func verifSSTableInit(ss *SSTable) error {
	ko, err := ss.initTable()
	if err != nil {
		return err
	}
	keyBytes := ko.GetKey()
	minKey := make([]byte, len(keyBytes))
	copy(minKey, keyBytes)
	ss.minKey = minKey
	ss.maxKey = minKey
	return nil
}

func verifMmapAdvise(m *MmapFile, pattern utils.AccessPattern) error { return nil }
func verifMmapClose(m *MmapFile) error                              { return nil }

// VerifFileBytes: the bytes of a model file (engine only).
func VerifFileBytes(name string) []byte { return verifFiles[name] }
