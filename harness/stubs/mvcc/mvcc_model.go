//go:build verif

package NoKV

// Model MVCC store for the percolator harnesses (C17/C18/C19/C28).
//
// Inside the gosym engine the four DB entry points the transaction layer uses
// (GetVersionedEntry, SetVersionedEntry, DeleteVersionedEntry,
// NewInternalIterator) and DB.NewIterator are REPLACED by the functions below
// (spec.json "replace"): an ideal multi-version map in which the most recent
// write of a (cf, key, version) wins. DB.NewIterator runs the REAL DBIterator
// over the model's internal iterator. The native replay does not use this file's
// stubs: it opens a real DB in a temporary directory and runs the real methods.

import (
	"os"
	"sort"

	sym "github.com/feichai0017/NoKV/internal/verifsym"
	"github.com/feichai0017/NoKV/kv"
	"github.com/feichai0017/NoKV/utils"
)

type verifRec struct {
	cf      kv.ColumnFamily
	key     []byte
	version uint64
	value   []byte
	meta    byte
	expires uint64
}

type verifMVCCStore struct {
	recs []*verifRec
}

var verifMVCC = &verifMVCCStore{}

// VerifOpenModelDB returns the DB handle used by the harness: a zero DB inside
// the engine (every method the kernel calls is replaced), a real DB natively.
func VerifOpenModelDB() *DB {
	if sym.Symbolic() {
		verifMVCC = &verifMVCCStore{}
		return &DB{}
	}
	dir, err := os.MkdirTemp("", "verif-mvcc-")
	if err != nil {
		panic(err)
	}
	opt := NewDefaultOptions()
	opt.WorkDir = dir
	opt.EnableWALWatchdog = false
	opt.ValueLogGCInterval = 0
	return Open(opt)
}

// VerifCloseModelDB closes and removes a natively opened DB.
func VerifCloseModelDB(db *DB) {
	if sym.Symbolic() || db == nil {
		return
	}
	dir := db.opt.WorkDir
	_ = db.Close()
	_ = os.RemoveAll(dir)
}

func verifSetVersionedEntry(db *DB, cf kv.ColumnFamily, key []byte, version uint64, value []byte, meta byte) error {
	if len(key) == 0 {
		return utils.ErrEmptyKey
	}
	rec := &verifRec{cf: cf, key: kv.SafeCopy(nil, key), version: version, value: kv.SafeCopy(nil, value), meta: meta}
	for i, r := range verifMVCC.recs {
		if r.cf == cf && string(r.key) == string(key) && r.version == version {
			verifMVCC.recs[i] = rec // the most recent write of one version wins
			return nil
		}
	}
	verifMVCC.recs = append(verifMVCC.recs, rec)
	return nil
}

func verifDeleteVersionedEntry(db *DB, cf kv.ColumnFamily, key []byte, version uint64) error {
	return verifSetVersionedEntry(db, cf, key, version, nil, kv.BitDelete)
}

func verifGetVersionedEntry(db *DB, cf kv.ColumnFamily, key []byte, version uint64) (*kv.Entry, error) {
	if len(key) == 0 {
		return nil, utils.ErrEmptyKey
	}
	var best *verifRec
	for _, r := range verifMVCC.recs {
		if r.cf != cf || string(r.key) != string(key) || r.version > version {
			continue
		}
		if best == nil || r.version > best.version {
			best = r
		}
	}
	if best == nil {
		return nil, utils.ErrKeyNotFound
	}
	return &kv.Entry{Key: kv.SafeCopy(nil, best.key), Value: kv.SafeCopy(nil, best.value), CF: cf, Meta: best.meta, Version: best.version}, nil
}

type verifModelItem struct{ e *kv.Entry }

func (it *verifModelItem) Entry() *kv.Entry { return it.e }

type verifModelIter struct {
	ents []*kv.Entry // internal keys, in iteration order
	idx  int
	asc  bool
}

func verifModelInternalIterator(opt *utils.Options) *verifModelIter {
	asc := true
	if opt != nil {
		asc = opt.IsAsc
	}
	it := &verifModelIter{asc: asc}
	for _, r := range verifMVCC.recs {
		it.ents = append(it.ents, &kv.Entry{Key: kv.InternalKey(r.cf, r.key, r.version), Value: kv.SafeCopy(nil, r.value), Meta: r.meta, Version: r.version, CF: r.cf, ExpiresAt: r.expires})
	}
	sort.Slice(it.ents, func(i, j int) bool {
		c := utils.CompareKeys(it.ents[i].Key, it.ents[j].Key)
		if asc {
			return c < 0
		}
		return c > 0
	})
	return it
}

func (it *verifModelIter) Next()       { it.idx++ }
func (it *verifModelIter) Valid() bool { return it.idx >= 0 && it.idx < len(it.ents) }
func (it *verifModelIter) Rewind()     { it.idx = 0 }
func (it *verifModelIter) Item() utils.Item {
	if !it.Valid() {
		return nil
	}
	return &verifModelItem{e: it.ents[it.idx]}
}
func (it *verifModelIter) Close() error { return nil }
func (it *verifModelIter) Seek(key []byte) {
	for i, e := range it.ents {
		c := utils.CompareKeys(e.Key, key)
		if (it.asc && c >= 0) || (!it.asc && c <= 0) {
			it.idx = i
			return
		}
	}
	it.idx = len(it.ents)
}

func verifNewInternalIterator(db *DB, opt *utils.Options) utils.Iterator {
	return verifModelInternalIterator(opt)
}

// verifNewIterator = DB.NewIterator with the merged LSM iterators replaced by
// the model's internal iterator; the DBIterator on top is the real one.
func verifNewIterator(db *DB, opt *utils.Options) utils.Iterator {
	if opt == nil {
		opt = &utils.Options{}
	}
	itr := &DBIterator{
		keyOnly:    opt.OnlyUseKey,
		lowerBound: opt.LowerBound,
		upperBound: opt.UpperBound,
		isAsc:      opt.IsAsc,
	}
	itr.item.e = &itr.entry
	itr.iitr = verifModelInternalIterator(opt)
	return itr
}
