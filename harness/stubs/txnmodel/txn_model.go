//go:build verif

package NoKV

// Storage model under the REAL transaction layer (Txn, oracle, iterators) for
// C06 (and C04): inside the engine
//   DB.sendToWriteCh      -> applies the batch to the ideal multi-version map in one step
//   DB.loadBorrowedEntry  -> newest entry with version <= the requested one
//   lsm.LSM.NewIterators  -> two sorted model iterators (so that the real
//                            MergeIterator, readTsIterator, TxnIterator and
//                            DBIterator run on top)
// The native replay opens a real DB.

import (
	"os"
	"time"

	sym "github.com/feichai0017/NoKV/internal/verifsym"
	"github.com/feichai0017/NoKV/kv"
	"github.com/feichai0017/NoKV/lsm"
	"github.com/feichai0017/NoKV/utils"
)

func VerifOpenTxnModelDB(detectConflicts bool) *DB {
	if sym.Symbolic() {
		verifMVCC = &verifMVCCStore{}
		opt := NewDefaultOptions()
		opt.DetectConflicts = detectConflicts
		db := &DB{opt: opt}
		db.initWriteBatchOptions()
		db.cfMetrics = make([]*cfCounters, int(kv.CFWrite)+1)
		for i := range db.cfMetrics {
			db.cfMetrics[i] = &cfCounters{}
		}
		db.orc = newOracle(*opt)
		return db
	}
	dir, err := os.MkdirTemp("", "verif-txn-")
	if err != nil {
		panic(err)
	}
	opt := NewDefaultOptions()
	opt.WorkDir = dir
	opt.EnableWALWatchdog = false
	opt.ValueLogGCInterval = 0
	opt.DetectConflicts = detectConflicts
	return Open(opt)
}

func verifSendToWriteCh(db *DB, entries []*kv.Entry, waitOnThrottle bool) (*request, error) {
	for _, e := range entries {
		cf, key, ts := kv.SplitInternalKey(e.Key)
		rec := &verifRec{cf: cf, key: kv.SafeCopy(nil, key), version: ts, value: kv.SafeCopy(nil, e.Value), meta: e.Meta, expires: e.ExpiresAt}
		replaced := false
		for i, r := range verifMVCC.recs {
			if r.cf == cf && string(r.key) == string(key) && r.version == ts {
				verifMVCC.recs[i] = rec
				replaced = true
				break
			}
		}
		if !replaced {
			verifMVCC.recs = append(verifMVCC.recs, rec)
		}
	}
	r := &request{}
	r.ref = 1
	return r, nil
}

func verifLoadBorrowedEntry(db *DB, internalKey []byte) (*kv.Entry, error) {
	cf, key, version := kv.SplitInternalKey(internalKey)
	var best *verifRec
	for _, r := range verifMVCC.recs {
		if r.cf != cf || string(r.key) != string(key) || r.version > version {
			continue
		}
		if best == nil || r.version > best.version {
			best = r
		}
	}
	if best == nil {
		return nil, utils.ErrKeyNotFound
	}
	e := kv.NewEntry(kv.InternalKey(cf, best.key, best.version), kv.SafeCopy(nil, best.value))
	e.Meta = best.meta
	e.ExpiresAt = best.expires
	e.Version = best.version
	return e, nil
}

// verifLSMNewIterators splits the records over two sources (even / odd
// position) so that the real merge iterator has something to merge.
func verifLSMNewIterators(l *lsm.LSM, opt *utils.Options) []utils.Iterator {
	all := verifMVCC.recs
	var out []utils.Iterator
	for part := 0; part < 2; part++ {
		saved := verifMVCC.recs
		var mine []*verifRec
		for i, r := range all {
			if i%2 == part {
				mine = append(mine, r)
			}
		}
		verifMVCC.recs = mine
		out = append(out, verifModelInternalIterator(opt))
		verifMVCC.recs = saved
	}
	return out
}

// ---- commit pipeline model (C34 / C04 / C37): the real sendToWriteCh,
// commit queue, ring and commit worker run; only the storage calls of the
// worker are replaced ----

// VerifApplied counts, per user key, how often the commit worker applied a
// write to the (model) LSM.
var VerifApplied = map[string]int{}

// VerifBatchOf / VerifVersionOf: the SetBatch call (numbered from 1) and the
// version with which a user key was last applied.
var (
	VerifBatchOf   = map[string]int{}
	VerifVersionOf = map[string]uint64{}
	VerifValueOf   = map[string][]byte{}
	verifBatchSeq  int
)

func VerifOpenPipelineDB(queueCap int, withOracle bool) *DB {
	if sym.Symbolic() {
		verifMVCC = &verifMVCCStore{}
		VerifApplied = map[string]int{}
		VerifBatchOf = map[string]int{}
		VerifVersionOf = map[string]uint64{}
		VerifValueOf = map[string][]byte{}
		verifBatchSeq = 0
		opt := NewDefaultOptions()
		opt.DetectConflicts = true
		db := &DB{opt: opt}
		db.initWriteBatchOptions()
		if withOracle { // two 65 536-slot watermark windows: only where transactions are used
			db.orc = newOracle(*opt)
		}
		db.cfMetrics = make([]*cfCounters, int(kv.CFWrite)+1)
		for i := range db.cfMetrics {
			db.cfMetrics[i] = &cfCounters{}
		}
		db.commitBatchPool.New = func() any {
			batch := make([]*commitRequest, 0, db.opt.WriteBatchMaxCount)
			return &batch
		}
		db.commitQueue.init(queueCap)
		db.commitWG.Add(1)
		go db.commitWorker()
		return db
	}
	dir, err := os.MkdirTemp("", "verif-pipe-")
	if err != nil {
		panic(err)
	}
	opt := NewDefaultOptions()
	opt.WorkDir = dir
	opt.EnableWALWatchdog = false
	opt.ValueLogGCInterval = 0
	opt.DetectConflicts = true
	opt.WriteBatchWait = VerifPipelineBatchWait
	return Open(opt)
}

// VerifClosePipeline: what DB.Close does to the write path.
func VerifClosePipeline(db *DB) {
	if sym.Symbolic() {
		db.stopCommitWorkers()
		return
	}
	dir := db.opt.WorkDir
	_ = db.Close()
	_ = os.RemoveAll(dir)
}

// VerifStopPipeline closes the database (engine: the write path) and keeps the
// directory; VerifRemovePipelineDir removes it afterwards.
func VerifStopPipeline(db *DB) {
	if sym.Symbolic() {
		db.stopCommitWorkers()
		return
	}
	_ = db.Close()
}

func VerifRemovePipelineDir(db *DB) {
	if !sym.Symbolic() {
		_ = os.RemoveAll(db.opt.WorkDir)
	}
}

// VerifPipelineBatchWait: natively, the commit worker's coalescing window
// (Options.WriteBatchWait) for pipeline databases opened afterwards.
var VerifPipelineBatchWait time.Duration

func verifVlogWrite(vlog *valueLog, reqs []*request) error {
	for _, r := range reqs {
		r.Ptrs = make([]kv.ValuePtr, len(r.Entries))
	}
	return nil
}

func verifLSMSetBatch(l *lsm.LSM, entries []*kv.Entry) error {
	for _, e := range entries { // as lsm.SetBatch: a nil entry or an empty key rejects the batch
		if e == nil || len(e.Key) == 0 {
			return utils.ErrEmptyKey
		}
	}
	verifBatchSeq++
	for _, e := range entries {
		cf, key, ts := kv.SplitInternalKey(e.Key)
		VerifApplied[string(key)]++
		VerifBatchOf[string(key)] = verifBatchSeq
		VerifVersionOf[string(key)] = ts
		VerifValueOf[string(key)] = kv.SafeCopy(nil, e.Value)
		verifMVCC.recs = append(verifMVCC.recs, &verifRec{cf: cf, key: kv.SafeCopy(nil, key), version: ts, value: kv.SafeCopy(nil, e.Value), meta: e.Meta, expires: e.ExpiresAt})
	}
	return nil
}

func verifUpdateHead(db *DB, ptrs []kv.ValuePtr) {}
