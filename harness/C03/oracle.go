//go:build verif

package NoKV

import (
	sym "github.com/feichai0017/NoKV/internal/verifsym"
	"github.com/feichai0017/NoKV/kv"
	"github.com/feichai0017/NoKV/utils"
)

// ---- inductive step on the transaction oracle ----
//
// Pre-state: an ARBITRARY oracle state that satisfies the representation
// invariant below (what a history of commits and clean-ups leaves behind), built
// directly instead of replaying a history. Then two commits in a row are
// decided by the real newCommitTs (conflict check, clean-up, timestamp issue,
// bookkeeping); each verdict is compared with the definition: a transaction
// conflicts iff some key it read was committed by somebody else after its read
// timestamp.
//
// Invariant (I): with L = lastCleanupTs,
//   committedTxns = exactly the history's commits with ts > L, in ts order;
//   intentTable[k] = the largest ts > L among commits of k (absent if none);
//   nextTxnTs > every issued ts; readMark.doneUntil >= L.
// Every active transaction has readTs > readMark.doneUntil (its read index has
// begun and is not done).

type c03Commit struct {
	ts   uint64
	keys [2]bool // wrote key 0 / key 1
}

var c03FP = [2]uint64{
	kv.MemHash(kv.EncodeKeyWithCF(kv.CFDefault, []byte("a"))),
	kv.MemHash(kv.EncodeKeyWithCF(kv.CFDefault, []byte("b"))),
}

// c03Keyset draws a non-empty key set (an empty read set never conflicts, an
// empty write set leaves no trace: both are trivial)
func c03Keyset(name string) [2]bool {
	switch sym.Int(name, 0, 2) {
	case 0:
		return [2]bool{true, false}
	case 1:
		return [2]bool{false, true}
	}
	return [2]bool{true, true}
}

// verifC03NextMark: where the read watermark stands once the committer's own
// read mark has retired. Inside the engine (*WaterMark).Done is replaced by
// verifC03MarkDone (the watermark itself is C32's subject); natively the real
// watermark is armed so that the real Done has exactly that effect.
var verifC03NextMark uint64

func verifC03MarkDone(w *utils.WaterMark, index uint64) { w.SetDoneUntil(verifC03NextMark) }

// c03ArmReadMark: the read watermark stands at M, the committer reads at r > M;
// when its mark retires the watermark moves to next, which is either M (an
// older reader is still active) or anything >= r (every reader up to next has
// finished: the later ones began and ended while the committer was running).
func c03ArmReadMark(o *oracle, M, r, next uint64) (unpin func()) {
	sym.Assume(sym.Or(sym.And(next == M, r > M+1), next >= r))
	verifC03NextMark = next
	o.readMark.SetDoneUntil(M)
	unpin = func() {}
	if sym.Symbolic() {
		return
	}
	if next == M {
		o.readMark.Begin(M + 1)
		unpin = func() { o.readMark.Done(M + 1) }
	}
	o.readMark.Begin(r)
	if next > r {
		o.readMark.Begin(next)
		o.readMark.Done(next)
	}
	return
}

func c03Txn(o *oracle, tag string, lo uint64) (*Txn, [2]bool, [2]bool) {
	reads, writes := c03Keyset(tag+"_reads"), c03Keyset(tag+"_writes")
	readTs := sym.U64(tag + "_read_ts")
	sym.Assume(readTs > lo && readTs < 100)
	t := &Txn{readTs: readTs, update: true, doneRead: false, conflictKeys: map[uint64]struct{}{}}
	for k := 0; k < 2; k++ {
		if reads[k] {
			t.reads = append(t.reads, c03FP[k])
		}
		if writes[k] {
			t.conflictKeys[c03FP[k]] = struct{}{}
		}
	}
	return t, reads, writes
}

func c03WantConflict(hist []c03Commit, readTs uint64, reads [2]bool) bool {
	c := false
	for _, h := range hist {
		for k := 0; k < 2; k++ {
			if reads[k] && h.keys[k] {
				c = sym.Or(c, h.ts > readTs)
			}
		}
	}
	return c
}

func c03NHist() int {
	if sym.Tier() > 0 {
		return 3
	}
	return 2
}

func VerifC03OracleStep() {
	o := newOracle(Options{DetectConflicts: true})
	// history of 0..3 commits with increasing symbolic timestamps below 100
	n := sym.Int("nhist", 0, c03NHist())
	var hist []c03Commit
	prev := uint64(0)
	for i := 0; i < n; i++ {
		ts := sym.U64("hist_ts")
		sym.Assume(ts > prev && ts < 90)
		prev = ts
		ks := c03Keyset("hist_keys")
		hist = append(hist, c03Commit{ts: ts, keys: ks})
	}
	// clean-up level L and the representation that invariant (I) prescribes
	L := sym.U64("last_cleanup")
	sym.Assume(L < 90)
	o.lastCleanupTs = L
	for _, h := range hist {
		if h.ts > L { // forks on the position of L in the history
			ck := map[uint64]struct{}{}
			for k := 0; k < 2; k++ {
				if h.keys[k] {
					ck[c03FP[k]] = struct{}{}
				}
			}
			var stored map[uint64]struct{}
			if len(ck) > 0 {
				stored = ck
			}
			o.committedTxns = append(o.committedTxns, committedTxn{ts: h.ts, conflictKeys: stored})
			for k := 0; k < 2; k++ {
				if h.keys[k] {
					o.intentTable[c03FP[k]] = h.ts // increasing ts: the last one stays
				}
			}
		}
	}
	o.nextTxnTs.Store(100)
	// the read watermark has moved to M >= L since the last clean-up
	M := sym.U64("read_mark")
	sym.Assume(M >= L && M < 95)

	// first committer (active => readTs > M); its read mark retires inside newCommitTs
	t1, reads1, writes1 := c03Txn(o, "t1", M)
	M1 := sym.U64("read_mark_after_t1")
	sym.Assume(M1 < 99)
	unpin := c03ArmReadMark(o, M, t1.readTs, M1)
	ts1, conflict1 := o.newCommitTs(t1)
	sym.Assert(conflict1 == c03WantConflict(hist, t1.readTs, reads1), "conflict-iff-read-key-committed-after-read-ts")
	if !conflict1 {
		sym.Assert(ts1 == 100, "commit-ts-above-every-earlier-one")
		hist = append(hist, c03Commit{ts: ts1, keys: writes1})
	}
	// the watermark may move again (other readers finish), never past an active reader
	M2 := sym.U64("read_mark_2")
	sym.Assume(M2 >= M1 && M2 < 99)
	if conflict1 { // a conflicting commit keeps its read mark until Discard
		o.doneRead(t1)
	}
	unpin()
	// second committer
	t2, reads2, _ := c03Txn(o, "t2", M2)
	M3 := sym.U64("read_mark_after_t2")
	sym.Assume(M3 < 99)
	_ = c03ArmReadMark(o, M2, t2.readTs, M3)
	ts2, conflict2 := o.newCommitTs(t2)
	sym.Assert(conflict2 == c03WantConflict(hist, t2.readTs, reads2), "conflict-iff-read-key-committed-after-read-ts")
	if !conflict2 {
		sym.Assert(ts2 > ts1 && ts2 >= 100, "commit-ts-above-every-earlier-one")
	}
	sym.Reached("end")
}
