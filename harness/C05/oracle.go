//go:build verif

package NoKV

import (
	sym "github.com/feichai0017/NoKV/internal/verifsym"
)

// Concurrent committers and readers on the real oracle and its watermarks: when
// a transaction obtains read timestamp r, every commit with a timestamp <= r has
// already been applied — so nothing it may see later can appear "late", and no
// commit is ever seen partially (a commit's writes are applied as one step
// between its timestamp issue and doneCommit).
func VerifC05NoLateVisibility() {
	o := newOracle(Options{DetectConflicts: true})
	ncommit := 2
	clock := 0 // ghost logical time: one tick per recorded event
	appliedAt := map[uint64]int{}
	type reading struct {
		rts uint64
		at  int
	}
	var readings []reading
	for c := 0; c < ncommit; c++ {
		fp := c03FP[c%2]
		sym.Go(func() {
			t := &Txn{readTs: 0, update: true, doneRead: true, conflictKeys: map[uint64]struct{}{fp: {}}}
			ts, conflict := o.newCommitTs(t)
			sym.Assert(!conflict, "blind-write-never-conflicts")
			sym.Yield() // the write travels through the commit pipeline
			clock++
			appliedAt[ts] = clock
			o.doneCommit(ts)
		})
	}
	nread := 1
	if sym.Tier() > 0 {
		nread = 2
	}
	for r := 0; r < nread; r++ {
		sym.Go(func() {
			rts := o.readTs()
			clock++
			readings = append(readings, reading{rts, clock})
			o.readMark.Done(rts)
		})
	}
	sym.Wait()
	// every commit at or below a read timestamp was applied before that timestamp was handed out
	for _, rd := range readings {
		for ts, at := range appliedAt {
			if ts <= rd.rts {
				sym.Assert(at < rd.at, "every-commit-at-or-below-read-ts-is-applied")
			}
		}
	}
	sym.Reached("end")
}
