//go:build verif

package NoKV

import (
	sym "github.com/feichai0017/NoKV/internal/verifsym"
	"github.com/feichai0017/NoKV/kv"
)

// Concurrent committers and readers on the real oracle and its watermarks: when
// a transaction obtains read timestamp r, every commit with a timestamp <= r has
// already been applied — so nothing it may see later can appear "late", and no
// commit is ever seen partially (a commit's writes are applied as one step
// between its timestamp issue and doneCommit).
func VerifC05NoLateVisibility() {
	o := newOracle(Options{DetectConflicts: true})
	ncommit := 2
	clock := 0 // ghost logical time: one tick per recorded event
	appliedAt := map[uint64]int{}
	type reading struct {
		rts uint64
		at  int
	}
	var readings []reading
	for c := 0; c < ncommit; c++ {
		fp := c03FP[c%2]
		sym.Go(func() {
			t := &Txn{readTs: 0, update: true, doneRead: true, conflictKeys: map[uint64]struct{}{fp: {}}}
			ts, conflict := o.newCommitTs(t)
			sym.Assert(!conflict, "blind-write-never-conflicts")
			sym.Yield() // the write travels through the commit pipeline
			clock++
			appliedAt[ts] = clock
			o.doneCommit(ts)
		})
	}
	nread := 1
	if sym.Tier() > 0 {
		nread = 2
	}
	for r := 0; r < nread; r++ {
		sym.Go(func() {
			rts := o.readTs()
			clock++
			readings = append(readings, reading{rts, clock})
			o.readMark.Done(rts)
		})
	}
	sym.Wait()
	// every commit at or below a read timestamp was applied before that timestamp was handed out
	for _, rd := range readings {
		for ts, at := range appliedAt {
			if ts <= rd.rts {
				sym.Assert(at < rd.at, "every-commit-at-or-below-read-ts-is-applied")
			}
		}
	}
	sym.Reached("end")
}

// ---- end to end on the real transaction layer and commit pipeline ----
//
// Committer A (key a) runs concurrently with a second thread that commits key b
// and then reads both keys in one read-only transaction, twice. Whatever the
// interleaving: the reader sees exactly the commits at or below its read
// timestamp, and sees the same thing both times (a commit at or below the read
// timestamp never becomes visible later).
func VerifC05SnapshotComplete() {
	sym.FreeRun() // native replay: real goroutines + stress iterations (see C34)
	db := VerifOpenPipelineDB(2, true)
	keys := []string{"a", "b"}
	payload := sym.U8("payload")
	commit := func(k string) {
		err := db.Update(func(txn *Txn) error { return txn.SetEntry(kv.NewEntry([]byte(k), []byte{payload})) })
		sym.Assert(err == nil, "disjoint-blind-writes-commit")
	}
	look := func(txn *Txn) (seen [2]bool) {
		for i, k := range keys {
			it, err := txn.Get([]byte(k))
			seen[i] = err == nil && it != nil
		}
		return
	}
	running := 2
	sym.Go(func() {
		commit("a")
		sym.Ghost(func() { running-- })
	})
	var rts uint64
	var first, second [2]bool
	sym.Go(func() {
		commit("b")
		txn := db.NewTransaction(false)
		rts = txn.readTs
		first = look(txn)
		sym.Yield()
		second = look(txn)
		txn.Discard()
		sym.Ghost(func() { running-- })
	})
	sym.WaitUntil(func() bool { return running == 0 })
	// what the snapshot at rts contains, now that everything has been applied
	final := db.NewTransaction(false)
	sym.Assert(final.readTs >= rts, "read-timestamps-do-not-go-back")
	final.readTs = rts
	want := look(final)
	sym.Assert(want[1], "own-thread-commit-is-visible")
	for i := range keys {
		sym.Assert(first[i] == want[i], "reads-see-every-commit-at-or-below-read-ts")
		sym.Assert(second[i] == first[i], "snapshot-stable-within-transaction")
	}
	VerifStopPipeline(db)
	VerifRemovePipelineDir(db)
	sym.Reached("end")
}
