//go:build verif

package utils

import (
	sym "github.com/feichai0017/NoKV/internal/verifsym"
	"github.com/feichai0017/NoKV/kv"
)

// Both memtable indexes against the ordered-map specification.
//
// n entries with symbolic user keys (1..2 arbitrary bytes: prefix-related keys,
// 0x00 and 0xFF bytes included), symbolic versions and payloads are inserted
// into a Skiplist and an ART. The specification is the sorted list of the
// distinct internal keys under CompareKeys (user key ascending, version
// descending), a later insert of the same internal key replacing the value.
//   * Search(probe) on each index = value of the first entry >= probe if it has
//     probe's user key, else the empty value;
//   * forward iteration yields exactly the entries in specification order,
//     reverse iteration in the opposite order;
//   * Seek(probe) lands on the first entry >= probe (<= in reverse).

type c07Rec struct {
	key []byte // internal key
	val byte
}

func c07UserKey(tag string) []byte {
	n := sym.Int(tag+"_len", 1, 2)
	k := make([]byte, n)
	for i := range k {
		k[i] = sym.U8(tag + "_byte")
	}
	return k
}

func c07Key(tag string) []byte {
	uk := c07UserKey(tag)
	ver := uint64(sym.SymInt(tag+"_version", 1, 3))
	return kv.InternalKey(kv.CFDefault, uk, ver)
}

// c07PrefixRelated: the user key of one internal key is a strict prefix of the
// other's (lengths are concrete on every path, bytes symbolic).
func c07PrefixRelated(a, b []byte) bool {
	ua, ub := kv.ParseKey(a), kv.ParseKey(b)
	if len(ua) == len(ub) {
		return false
	}
	if len(ua) > len(ub) {
		ua, ub = ub, ua
	}
	r := true
	for i := range ua {
		r = sym.And(r, ua[i] == ub[i])
	}
	return r
}

// c07AnyPrefixRelated: some pair among the keys is prefix-related.
func c07AnyPrefixRelated(keys [][]byte) bool {
	r := false
	for i := range keys {
		for j := i + 1; j < len(keys); j++ {
			r = sym.Or(r, c07PrefixRelated(keys[i], keys[j]))
		}
	}
	return r
}

func c07Keys(spec []c07Rec, probe []byte) [][]byte {
	var ks [][]byte
	for _, r := range spec {
		ks = append(ks, r.key)
	}
	if probe != nil {
		ks = append(ks, probe)
	}
	return ks
}

// c07Less: the engine-independent internal-key order.
func c07Cmp(a, b []byte) int { return CompareKeys(a, b) }

// c07Insert keeps spec sorted and distinct.
func c07Insert(spec []c07Rec, r c07Rec) []c07Rec {
	for i := range spec {
		c := c07Cmp(r.key, spec[i].key)
		if c == 0 {
			spec[i].val = r.val
			return spec
		}
		if c < 0 {
			out := append([]c07Rec{}, spec[:i]...)
			out = append(out, r)
			return append(out, spec[i:]...)
		}
	}
	return append(spec, r)
}

func c07Lookup(spec []c07Rec, probe []byte) (byte, bool) {
	for _, r := range spec {
		if c07Cmp(r.key, probe) >= 0 {
			if kv.SameKey(probe, r.key) {
				return r.val, true
			}
			return 0, false
		}
	}
	return 0, false
}

type c07Index interface {
	Add(*kv.Entry)
	Search([]byte) kv.ValueStruct
	NewIterator(*Options) Iterator
}

func c07N() int { return 3 }

func c07Build(idx c07Index) []c07Rec {
	var spec []c07Rec
	n := c07N()
	for i := 0; i < n; i++ {
		k := c07Key("key")
		v := sym.U8("payload")
		idx.Add(&kv.Entry{Key: k, Value: []byte{v}, Version: kv.ParseTs(k)})
		spec = c07Insert(spec, c07Rec{key: k, val: v})
	}
	return spec
}

func c07CheckSearch(idx c07Index, spec []c07Rec, which string) {
	probe := c07Key("probe")
	sym.Finding("PrefixRelatedUserKeys", c07AnyPrefixRelated(c07Keys(spec, probe)))
	want, found := c07Lookup(spec, probe)
	got := idx.Search(probe)
	if found {
		sym.Assert(len(got.Value) == 1 && got.Value[0] == want, which+"-search-returns-the-first-entry-at-or-above-the-probe")
	} else {
		sym.Assert(len(got.Value) == 0, which+"-search-returns-the-first-entry-at-or-above-the-probe")
	}
}

func c07CheckScan(idx c07Index, spec []c07Rec, which string) {
	asc := sym.Int("ascending", 0, 1) == 1
	sym.Finding("PrefixRelatedUserKeys", c07AnyPrefixRelated(c07Keys(spec, nil)))
	it := idx.NewIterator(&Options{IsAsc: asc})
	i := 0
	for it.Rewind(); it.Valid(); it.Next() {
		sym.Assert(i < len(spec), which+"-scan-yields-exactly-the-entries-in-order")
		want := spec[i]
		if !asc {
			want = spec[len(spec)-1-i]
		}
		e := it.Item().Entry()
		sym.Assert(sym.BytesEq(e.Key, want.key) && len(e.Value) == 1 && e.Value[0] == want.val, which+"-scan-yields-exactly-the-entries-in-order")
		i++
	}
	sym.Assert(i == len(spec), which+"-scan-yields-exactly-the-entries-in-order")
	_ = it.Close()
}

func c07CheckSeek(idx c07Index, spec []c07Rec, which string) {
	asc := sym.Int("ascending", 0, 1) == 1
	probe := c07Key("probe")
	sym.Finding("PrefixRelatedUserKeys", c07AnyPrefixRelated(c07Keys(spec, probe)))
	it := idx.NewIterator(&Options{IsAsc: asc})
	it.Seek(probe)
	// the specification's landing point
	want := -1
	if asc {
		for i := range spec {
			if c07Cmp(spec[i].key, probe) >= 0 {
				want = i
				break
			}
		}
	} else {
		for i := len(spec) - 1; i >= 0; i-- {
			if c07Cmp(spec[i].key, probe) <= 0 {
				want = i
				break
			}
		}
	}
	if want < 0 {
		sym.Assert(!it.Valid(), which+"-seek-lands-on-the-first-entry-at-or-after-the-target")
	} else {
		sym.Assert(it.Valid(), which+"-seek-lands-on-the-first-entry-at-or-after-the-target")
		e := it.Item().Entry()
		sym.Assert(sym.BytesEq(e.Key, spec[want].key), which+"-seek-lands-on-the-first-entry-at-or-after-the-target")
	}
	_ = it.Close()
}

func VerifC07SkiplistSearch() {
	idx := NewSkiplist(1 << 20)
	c07CheckSearch(idx, c07Build(idx), "skiplist")
	sym.Reached("end")
}
func VerifC07SkiplistScan() {
	idx := NewSkiplist(1 << 20)
	c07CheckScan(idx, c07Build(idx), "skiplist")
	sym.Reached("end")
}
func VerifC07SkiplistSeek() {
	idx := NewSkiplist(1 << 20)
	c07CheckSeek(idx, c07Build(idx), "skiplist")
	sym.Reached("end")
}
func VerifC07ARTSearch() {
	idx := NewART(1 << 20)
	c07CheckSearch(idx, c07Build(idx), "art")
	sym.Reached("end")
}
func VerifC07ARTScan() {
	idx := NewART(1 << 20)
	c07CheckScan(idx, c07Build(idx), "art")
	sym.Reached("end")
}
func VerifC07ARTSeek() {
	idx := NewART(1 << 20)
	c07CheckSeek(idx, c07Build(idx), "art")
	sym.Reached("end")
}

// ---- node growth: many children under one node ----
//
// 5 entries whose one-byte user keys are distinct concrete bytes (inserted in a
// scrambled order; ART: the 5th child turns a Node4 into a Node16), then one
// (thorough two) more entries and a probe with symbolic bytes. Node48/Node256
// index their children through a 256-entry table by a symbolic byte, which the
// solver does not get through within the budget: outside the claim.
func c07Growth(idx c07Index, which string) {
	k := 5
	var spec []c07Rec
	for i := 0; i < k; i++ {
		b := byte((i*37 + 11) % 251) // distinct for i < 251, scrambled
		key := kv.InternalKey(kv.CFDefault, []byte{b}, 2)
		idx.Add(&kv.Entry{Key: key, Value: []byte{b}, Version: 2})
		spec = c07Insert(spec, c07Rec{key: key, val: b})
	}
	nsym := 1
	for i := 0; i < nsym; i++ {
		key := kv.InternalKey(kv.CFDefault, []byte{sym.U8("key_byte")}, uint64(sym.SymInt("key_version", 1, 3)))
		v := sym.U8("payload")
		idx.Add(&kv.Entry{Key: key, Value: []byte{v}, Version: kv.ParseTs(key)})
		spec = c07Insert(spec, c07Rec{key: key, val: v})
	}
	probe := kv.InternalKey(kv.CFDefault, []byte{sym.U8("probe_byte")}, uint64(sym.SymInt("probe_version", 1, 3)))
	want, found := c07Lookup(spec, probe)
	got := idx.Search(probe)
	if found {
		sym.Assert(len(got.Value) == 1 && got.Value[0] == want, which+"-search-returns-the-first-entry-at-or-above-the-probe")
	} else {
		sym.Assert(len(got.Value) == 0, which+"-search-returns-the-first-entry-at-or-above-the-probe")
	}
	asc := sym.Int("ascending", 0, 1) == 1
	it := idx.NewIterator(&Options{IsAsc: asc})
	i := 0
	for it.Rewind(); it.Valid(); it.Next() {
		sym.Assert(i < len(spec), which+"-scan-yields-exactly-the-entries-in-order")
		want := spec[i]
		if !asc {
			want = spec[len(spec)-1-i]
		}
		e := it.Item().Entry()
		sym.Assert(sym.BytesEq(e.Key, want.key) && len(e.Value) == 1 && e.Value[0] == want.val, which+"-scan-yields-exactly-the-entries-in-order")
		i++
	}
	sym.Assert(i == len(spec), which+"-scan-yields-exactly-the-entries-in-order")
	_ = it.Close()
}

func VerifC07ARTGrowth() {
	c07Growth(NewART(1<<20), "art")
	sym.Reached("end")
}
func VerifC07SkiplistGrowth() {
	c07Growth(NewSkiplist(1<<20), "skiplist")
	sym.Reached("end")
}

// ---- concurrent inserts ----
//
// Two threads insert one entry each (symbolic keys; equal keys included), every
// interleaving of their atomic steps within the preemption bound; afterwards
// the index holds exactly the specification's entries (for one internal key
// inserted twice: either value).
func c07Concurrent(idx c07Index, which string) {
	var base []c07Rec
	// one entry is there already; one-byte user keys (no prefix-related pairs)
	c07Key := func(tag string) []byte {
		return kv.InternalKey(kv.CFDefault, []byte{sym.U8(tag + "_byte")}, uint64(sym.SymInt(tag+"_version", 1, 2)))
	}
	k0 := c07Key("key")
	idx.Add(&kv.Entry{Key: k0, Value: []byte{0}, Version: kv.ParseTs(k0)})
	base = c07Insert(base, c07Rec{key: k0, val: 0})
	keys := [][]byte{c07Key("key"), c07Key("key")}
	for t := 0; t < 2; t++ {
		t := t
		sym.Go(func() {
			idx.Add(&kv.Entry{Key: keys[t], Value: []byte{byte(t + 1)}, Version: kv.ParseTs(keys[t])})
		})
	}
	sym.Wait()
	// specification: both orders of the two inserts give the same key set
	spec := c07Insert(c07Insert(base, c07Rec{key: keys[0], val: 1}), c07Rec{key: keys[1], val: 2})
	it := idx.NewIterator(&Options{IsAsc: true})
	i := 0
	for it.Rewind(); it.Valid(); it.Next() {
		sym.Assert(i < len(spec), which+"-concurrent-inserts-all-present-in-order")
		e := it.Item().Entry()
		sym.Assert(sym.BytesEq(e.Key, spec[i].key) && len(e.Value) == 1, which+"-concurrent-inserts-all-present-in-order")
		i++
	}
	sym.Assert(i == len(spec), which+"-concurrent-inserts-all-present-in-order")
	_ = it.Close()
	for t := 0; t < 2; t++ {
		got := idx.Search(keys[t])
		sym.Assert(len(got.Value) == 1, which+"-concurrent-inserts-all-present-in-order")
	}
}

func VerifC07ARTConcurrent() {
	c07Concurrent(NewART(1<<20), "art")
	sym.Reached("end")
}
func VerifC07SkiplistConcurrent() {
	c07Concurrent(NewSkiplist(1<<20), "skiplist")
	sym.Reached("end")
}

// ---- wide nodes: Node48 / Node256 ----
//
// 20 (thorough 50) entries with distinct CONCRETE one-byte user keys, 0x00 and
// 0xFF among them, two versions for some, are inserted in a scrambled order;
// one node grows to Node48 (thorough: Node256). The probe (byte and version)
// byte is enumerated over all 256 values, its version is symbolic: Search,
// forward/reverse Seek.
func c07Wide(idx c07Index, which string) {
	k := 20
	if sym.Tier() > 0 {
		k = 50
	}
	var spec []c07Rec
	for i := 0; i < k; i++ {
		b := byte((i*37 + 11) % 251)
		switch i {
		case 3:
			b = 0xFF
		case 7:
			b = 0x00
		}
		ver := uint64(2 + i%2)
		key := kv.InternalKey(kv.CFDefault, []byte{b}, ver)
		idx.Add(&kv.Entry{Key: key, Value: []byte{b}, Version: ver})
		spec = c07Insert(spec, c07Rec{key: key, val: b})
	}
	// the probe byte is enumerated (a symbolic index into the 256-entry child
	// table is beyond the solver), the probe version is symbolic
	probe := kv.InternalKey(kv.CFDefault, []byte{byte(sym.Int("probe_byte", 0, 255))}, uint64(sym.SymInt("probe_version", 1, 4)))
	want, found := c07Lookup(spec, probe)
	got := idx.Search(probe)
	if found {
		sym.Assert(len(got.Value) == 1 && got.Value[0] == want, which+"-search-returns-the-first-entry-at-or-above-the-probe")
	} else {
		sym.Assert(len(got.Value) == 0, which+"-search-returns-the-first-entry-at-or-above-the-probe")
	}
	asc := sym.Int("ascending", 0, 1) == 1
	it := idx.NewIterator(&Options{IsAsc: asc})
	it.Seek(probe)
	wi := -1
	if asc {
		for i := range spec {
			if c07Cmp(spec[i].key, probe) >= 0 {
				wi = i
				break
			}
		}
	} else {
		for i := len(spec) - 1; i >= 0; i-- {
			if c07Cmp(spec[i].key, probe) <= 0 {
				wi = i
				break
			}
		}
	}
	if wi < 0 {
		sym.Assert(!it.Valid(), which+"-seek-lands-on-the-first-entry-at-or-after-the-target")
	} else {
		sym.Assert(it.Valid(), which+"-seek-lands-on-the-first-entry-at-or-after-the-target")
		sym.Assert(sym.BytesEq(it.Item().Entry().Key, spec[wi].key), which+"-seek-lands-on-the-first-entry-at-or-after-the-target")
	}
	_ = it.Close()
}

func VerifC07ARTWide() {
	c07Wide(NewART(1<<20), "art")
	sym.Reached("end")
}
