//go:build verif

package main

import (
	"context"

	"github.com/feichai0017/NoKV/internal/verifstubs/memfs"
	sym "github.com/feichai0017/NoKV/internal/verifsym"
	"github.com/feichai0017/NoKV/pb"
	"github.com/feichai0017/NoKV/pd/core"
	pdserver "github.com/feichai0017/NoKV/pd/server"
	pdstorage "github.com/feichai0017/NoKV/pd/storage"
)

func c26Key(name string, maxLen int) []byte {
	n := sym.Int(name+"_len", 0, maxLen)
	if n == 0 {
		return nil
	}
	return sym.Bytes(name, n)
}

type c26Region struct {
	id         uint64
	start, end []byte
	ver, conf  uint64
}

func c26In(r c26Region, k []byte) bool {
	lo := len(r.start) == 0 || !sym.BytesLess(k, r.start)
	hi := len(r.end) == 0 || sym.BytesLess(k, r.end)
	return sym.And(lo, hi)
}

// reference overlap of two well-formed ranges [s,e), empty e = unbounded
func c26Overlap(a, b c26Region) bool {
	aBeforeB := len(a.end) > 0 && !sym.BytesLess(b.start, a.end) // a.end <= b.start
	bBeforeA := len(b.end) > 0 && !sym.BytesLess(a.start, b.end)
	return sym.And(!aBeforeB, !bBeforeA)
}

func c26Lookup(svc *pdserver.Service, probe []byte, model []c26Region, tag string) {
	resp, err := svc.GetRegionByKey(context.Background(), &pb.GetRegionByKeyRequest{Key: probe})
	sym.Assert(err == nil && resp != nil, tag+"-lookup-ok")
	// reference: the unique model region containing the probe
	found := false
	var want uint64
	for _, r := range model {
		in := c26In(r, probe)
		want = sym.IteU64(in, r.id, want)
		found = sym.Or(found, in)
	}
	got := !resp.GetNotFound()
	sym.Assert(got == found, tag+"-lookup-found-iff-contained")
	var gotID uint64
	if resp.GetRegion() != nil {
		gotID = resp.GetRegion().GetId()
	}
	sym.Assert(sym.Implies(found, gotID == want), tag+"-lookup-returns-containing-region")
}

func c26Same(a, b []core.RegionInfo) bool {
	if len(a) != len(b) {
		return false
	}
	eq := true
	for i := range a {
		x, y := a[i].Meta, b[i].Meta
		eq = sym.And(eq, sym.And(sym.And(x.ID == y.ID, x.Epoch == y.Epoch), sym.And(sym.BytesEq(x.StartKey, y.StartKey), sym.BytesEq(x.EndKey, y.EndKey))))
	}
	return eq
}

// For any sequence of region heartbeats and removals PD accepts exactly the
// non-stale, non-overlapping heartbeats, routes every key to the unique
// containing region and reloads the same catalog after a restart.
func VerifC26Routing() {
	nops, klen := 2, 1
	if sym.Tier() > 0 {
		nops, klen = 3, 2
	}
	fs := memfs.New()
	store, err := pdstorage.OpenLocalStore("/pd", fs)
	sym.Assert(err == nil, "store-open")
	cluster := core.NewCluster()
	svc := pdserver.NewService(cluster, nil, nil)
	svc.SetStorage(store)
	ctx := context.Background()

	var model []c26Region
	n := sym.Int("nops", 1, nops)
	for i := 0; i < n; i++ {
		id := uint64(sym.Int("id", 1, 3))
		if sym.Int("op", 0, 3) == 0 {
			resp, err := svc.RemoveRegion(ctx, &pb.RemoveRegionRequest{RegionId: id})
			existed := false
			for j, r := range model {
				if r.id == id {
					existed = true
					model = append(model[:j:j], model[j+1:]...)
					break
				}
			}
			sym.Assert(err == nil && resp.GetRemoved() == existed, "remove-reports-existence")
			continue
		}
		r := c26Region{id: id, start: c26Key("start", klen), end: c26Key("end", klen),
			ver: uint64(sym.SymInt("ver", 0, 100)), conf: uint64(sym.SymInt("conf", 0, 100))}
		if len(r.start) > 0 && len(r.end) > 0 {
			sym.Assume(sym.BytesLess(r.start, r.end)) // well-formed range
		}
		stale, overlap := false, false
		at := -1
		for j, m := range model {
			if m.id == id {
				at = j
				stale = sym.Or(r.ver < m.ver, sym.And(r.ver == m.ver, r.conf < m.conf))
			} else {
				overlap = sym.Or(overlap, c26Overlap(r, m))
			}
		}
		want := sym.And(!stale, !overlap)
		_, err := svc.RegionHeartbeat(ctx, &pb.RegionHeartbeatRequest{Region: &pb.RegionMeta{Id: id, StartKey: r.start, EndKey: r.end, EpochVersion: r.ver, EpochConfVersion: r.conf}})
		sym.Assert((err == nil) == want, "heartbeat-accepted-iff-fresh-and-disjoint")
		if err == nil {
			if at >= 0 {
				model[at] = r
			} else {
				model = append(model, r)
			}
		}
	}
	probe := c26Key("probe", klen)
	c26Lookup(svc, probe, model, "live")
	before := cluster.RegionSnapshot()
	sym.Assert(len(before) == len(model), "catalog-size")

	// restart: reload the persisted catalog the way `nokv pd` does
	sym.Assert(store.Close() == nil, "store-close")
	store2, err := pdstorage.OpenLocalStore("/pd", fs)
	sym.Assert(err == nil, "store-reopen")
	snap, err := store2.Load()
	sym.Assert(err == nil, "store-load")
	cluster2 := core.NewCluster()
	_, err = restorePDRegions(cluster2, snap.Regions)
	sym.Assert(err == nil, "restore-ok")
	after := cluster2.RegionSnapshot()
	sym.Assert(c26Same(before, after), "reload-identical")
	svc2 := pdserver.NewService(cluster2, nil, nil)
	c26Lookup(svc2, probe, model, "reloaded")
	sym.Reached("end")
}

// Re-heartbeat of a known region next to other known regions: three disjoint
// regions with symbolic one-byte bounds, then one heartbeat for any id (known
// or new) with an arbitrary new range and epoch. Acceptance must be exactly
// "not stale and disjoint from every OTHER region", and routing must follow.
func VerifC26Reheartbeat() {
	cluster := core.NewCluster()
	svc := pdserver.NewService(cluster, nil, nil)
	ctx := context.Background()
	// known regions 1,2,3 in key order: [b0,b1) [b2,b3) [b4,b5), gaps allowed
	b := sym.Bytes("bound", 6)
	for i := 0; i+1 < 6; i++ {
		if i%2 == 0 {
			sym.Assume(b[i] < b[i+1])
		} else {
			sym.Assume(b[i] <= b[i+1])
		}
	}
	var model []c26Region
	for i := 0; i < 3; i++ {
		r := c26Region{id: uint64(i + 1), start: []byte{b[2*i]}, end: []byte{b[2*i+1]}, ver: 5, conf: 5}
		_, err := svc.RegionHeartbeat(ctx, &pb.RegionHeartbeatRequest{Region: &pb.RegionMeta{Id: r.id, StartKey: r.start, EndKey: r.end, EpochVersion: r.ver, EpochConfVersion: r.conf}})
		sym.Assert(err == nil, "setup-accepted")
		model = append(model, r)
	}
	id := uint64(sym.Int("id", 1, 4))
	r := c26Region{id: id, start: c26Key("start", 1), end: c26Key("end", 1), ver: uint64(sym.SymInt("ver", 4, 6)), conf: uint64(sym.SymInt("conf", 4, 6))}
	if len(r.start) > 0 && len(r.end) > 0 {
		sym.Assume(sym.BytesLess(r.start, r.end))
	}
	stale, overlap := false, false
	at := -1
	for j, m := range model {
		if m.id == id {
			at = j
			stale = sym.Or(r.ver < m.ver, sym.And(r.ver == m.ver, r.conf < m.conf))
		} else {
			overlap = sym.Or(overlap, c26Overlap(r, m))
		}
	}
	want := sym.And(!stale, !overlap)
	_, err := svc.RegionHeartbeat(ctx, &pb.RegionHeartbeatRequest{Region: &pb.RegionMeta{Id: id, StartKey: r.start, EndKey: r.end, EpochVersion: r.ver, EpochConfVersion: r.conf}})
	sym.Assert((err == nil) == want, "heartbeat-accepted-iff-fresh-and-disjoint")
	if err == nil {
		if at >= 0 {
			model[at] = r
		} else {
			model = append(model, r)
		}
	}
	c26Lookup(svc, c26Key("probe", 1), model, "live")
	sym.Reached("end")
}
